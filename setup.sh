#!/bin/sh
# Builds the check driver and warms the Go build cache, offline, from files on disk only.
set -e
export GOFLAGS=-mod=mod GOPROXY=off GOSUMDB=off GOTOOLCHAIN=local
cd /verif/harness
mkdir -p /verif/bin /verif/evidence
go build -o /verif/bin/vcheck ./cmd/vcheck
# warm the cache for the worker (plain verif build); output discarded
T=$(mktemp -d)
go build -tags verif -o "$T/vworker" ./cmd/vworker
# warm the race-detector variant (C17 auxiliary pass) and the instrumenter
go build -race -tags verif -o "$T/vworker-race" ./cmd/vworker
go build -o "$T/vinstr" ./cmd/vinstr
rm -rf "$T"
echo setup-ok
