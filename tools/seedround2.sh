#!/bin/bash
# confirm + save + test the round-2 seeds of one property: seedround2.sh <id>
id=$1
for m in m1 m2; do
  /verif/tools/seedconfirm.sh /tmp/seed/$id /tmp/seed/out2/$id/$m.diff 2>&1 | grep CONFIRM
done
