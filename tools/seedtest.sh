#!/bin/bash
# Applies one seeded change to /repo, runs the property's check (tier $3, default quick; more
# ids may follow as $4...), restores /repo and the evidence files. Prints DETECTED/MISSED.
# usage: seedtest.sh <property-id> <patch.diff> [tier] [other-check-ids...]
ID=$1; PATCH=$2; TIER=${3:-quick}; shift 3 2>/dev/null
CHECKS="$ID $*"
cd /verif
if [ -n "$(git -C /repo status --porcelain)" ]; then echo "ABORT: /repo is not clean"; exit 2; fi
git -C /repo apply "$PATCH" || { echo "ABORT: patch does not apply"; exit 2; }
trap 'git -C /repo checkout -- . ; git -C /repo clean -fdq' EXIT
res=""
for c in $CHECKS; do
  cp evidence/$c.json /dev/shm/ev_$c.json.sav 2>/dev/null
  out=$(timeout 3600 ./bin/vcheck $c --tier $TIER 2>/dev/null); code=$?
  cp /dev/shm/ev_$c.json.sav evidence/$c.json 2>/dev/null; rm -f /dev/shm/ev_$c.json.sav
  first=$(echo "$out" | grep -A2 -m1 "^VIOLATION\|^HARNESS-ERROR" | cut -c1-300 | tr '\n' ' ')
  if [ $code -eq 1 ]; then res="$res $c:DETECTED"; echo "[$c/$TIER] exit=1 $first"
  elif [ $code -eq 0 ]; then res="$res $c:missed"; echo "[$c/$TIER] exit=0 (no violation)"
  else res="$res $c:ERROR($code)"; echo "[$c/$TIER] exit=$code $first"; fi
  rm -rf replays/$c
done
echo "RESULT $ID $(basename $(dirname $PATCH))/$(basename $PATCH):$res"
