#!/usr/bin/env python3
"""Regenerates /verif/MANIFEST.json from the table below (single source of truth)."""
import json, subprocess

HOOKS = subprocess.run(["git", "-C", "/repo", "log", "--format=%h %s"], capture_output=True, text=True).stdout.splitlines()
hook_commits = [l.split()[0] for l in HOOKS if l.split(" ", 1)[1].startswith("verif hooks")]

MC = "model_checking"
FE = "fault_enumeration"
TRUST = "Trusted: Go toolchain, goleveldb, mass-core (chain DB, consensus functions, txscript), btcec, the harness reference implementations (validated against published vectors where they exist)."

checks = {
 "C01": (MC, "histbfs", "explicit-state BFS over event histories on the real implementation with a reference-ledger oracle",
   "Every history of chain events (12 block templates, reorgs of depth<=k with 4 branch patterns) and notification deliveries up to the stated depth is executed on the real follower code over a real chain database; in every reached state the queue is drained and all ledger queries are compared with a reference ledger and a consensus-library maturity oracle. Exhaustive within the bounds reported in the evidence.",
   "§5 C01"),
 "C02": (MC, "reqenum", "bounded-exhaustive request enumeration over UTXO shapes from real chain histories with a clause-by-clause oracle",
   "For 17 wallet UTXO shapes (incl. 700 small coins, two outputs of one transaction, reorged-away, matured staking, restarted) reached through real chain histories, the full product of automatic-selection requests, two-call sequences and explicit-input requests is executed on the real builder; every answer is checked clause by clause against the reference ledger (ownership, no duplicates, eligibility, outputs, change address, fee = inputs - outputs, relay minimum for the signed size, success/failure).",
   "§5 C02"),
 "C03": (MC, "reqenum", "bounded-exhaustive (transaction x sighash flag x passphrase family) enumeration with an independent script-engine oracle",
   "For the same shapes, wallet-built transactions (1..n inputs, payload/lock-time variants, staking/binding withdrawals) x 6 sighash flags are signed with the right and 13 wrong passphrases (incl. white-space padded variants of the right one); the signed bytes must equal the input except for witnesses, every input must pass an independent consensus script-engine run, and wrong passphrases must return nothing and leave no witness.",
   "§5 C03"),
 "C04": (MC, "histbfs", "explicit-state BFS over create/address/sign/export/import/restart/passphrase-change sequences across instances with an independent key-derivation oracle",
   "Every sequence of wallet-identity operations (create, new address of both classes, sign, export, keystore import, mnemonic import with and without internal-branch addresses, a second wallet on the same instance, public-passphrase changes between passphrases of different lengths, restart) up to the stated depth across up to three instances runs on the real keystore; ids, every external and internal address index, NewAddress results and signatures are compared with an independent BIP-39/BIP-32/script derivation and across instances.",
   "§5 C04"),
 "C05": (MC, "histbfs", "same state space as C04 with a wrong-passphrase family and a raw secret scan as oracle",
   "In every state of the C04 space, before and after an unlock, every secret-requiring operation is tried with ~60 wrong passphrases (must be refused, change nothing, not lock out the right one) and the raw databases, exported keystores and error strings are scanned for every secret the harness derives from the mnemonic.",
   "§5 C05"),
 "C06": (FE, "faultenum", "exhaustive crash-point enumeration (every wallet-database commit of every base history) through a db seam, with real restart and catch-up",
   "For the shortest history of every state of the C01 space up to the base depth, and of a second space with API operations and background steps (mnemonic import, single rescan batches, removal call and removal run, NewAddress, restart), the process is stopped before each wallet-database commit in turn; the wallet is restarted on the same database through the real start-up path (goroutines until idle), must resume unfinished background work by itself, end with every wallet ready or gone, and report the reference ledger of the node's final chain. Further passes: the process down while the node mines 2000+ blocks (directed histories, four wallet-id orders), and wallet-database transactions of several thousand records (a block paying 1500 outputs, an import deriving 2100 addresses) with every commit as crash point.",
   "§5 C06"),
 "C07": (MC, "histbfs", "explicit-state BFS over import-call / single-rescan-batch / node-event / delivery / restart histories on the real implementation",
   "Every history of importing a wallet whose history is already on chain (gap limit 3, payments to key-chain indexes 0/2/4), single rescan batches of the real asyncImport with the worker's re-queue decision modelled from their results, blocks paying/spending it, reorganisations, deliveries and a restart up to the stated depth, plus a pass over 1003-block chains (rescan spans batches) and a pass that starts after the first batch of a 1000-block rescan and explores reorganisations reaching below the rescan cursor, and a pass with one height per rescan batch over short chains (events between any two batches); refusal to select/remove while importing; after completion every wallet is ready, every address with history reachable under the gap rule (independent derivation) is held, and the ledger equals the reference ledger.",
   "§5 C07"),
 "C08": (MC, "histbfs", "explicit-state BFS over two-wallet histories with removal call / removal run / restart / re-import, raw residue scan and survivor ledger oracle",
   "Every history of two wallets sharing transactions, the removal API call, the background removal run, restarts between them, reorganisations and re-import up to the stated depth, a pass in which the removed wallet holds pending records (unconfirmed deposits and payments), and a pass that stops before every commit inside the removal and restarts through the real start-up path; wrong passphrases are refused, after completion no raw database record mentions the removed wallet's id, script hashes or addresses, and the surviving wallet's ledger equals the reference.",
   "§5 C08"),
 "C09": (MC, "histbfs", "explicit-state BFS over relay/confirm/conflict/reorg histories on the real implementation with a reference pending-set model",
   "Every history of relayed transactions (wallet spend with one or two wallet inputs, incoming payment, child, conflict, duplicate while still valid), blocks that confirm them or their conflicts, reorganisations and deliveries up to the stated depth runs on the real follower; in every state the wallet's pending buckets, the read-back of each pending entry, the spent_by_unmined flag of every coin and two automatic-selection probes are compared with a reference pending model, together with the C01 ledger oracle; a second pass starts from a state with two wallet coins and explores several pending spenders of one coin (two-input spend, conflicting spend of its first input, a conflict confirmed on either input).",
   "§5 C09"),
 "C10": (MC, "histbfs", "explicit-state BFS over staking/binding deposit, withdrawal, pending and reorg histories on the real implementation with a consensus-library lock oracle",
   "Every history of staking/binding deposits (old and new style across the scaled warm-up height), their withdrawals, pending versions and reorganisations up to the stated depth runs on the real follower; in every state both history views, balances/withdrawable classification and the sequence and consensus lock status of wallet-built withdrawals are compared with the reference.",
   "§5 C10"),
 "C11": (MC, "dbmodel", "explicit-state BFS over database operation sequences on the real ldb backend against a nested-map model",
   "Every sequence of transaction/bucket/key operations within the stated bounds is executed on the real LevelDB backend and after each one (also on transitions into known states) the complete readable content (through the open write transaction and through a fresh read transaction) is compared with a nested-map reference; every fresh database is read back right after its first commit (nothing of another database's transactions may surface); further passes: the directory-backed create/open/close path, transactions of 5000 / 70000 keys, a bucket chain down to depth 12 (two-digit depth prefixes), keys and bucket names that look like the backend's encoded keys, and a read transaction kept open across commits (it must show exactly one committed state).",
   "§5 C11"),
 "C12": (MC, "histbfs", "explicit-state BFS over new-address/payment/reorg/restart histories with restore probes, per gap limit",
   "For gap limits 2,3(,4): every history of address requests of both classes, payments to issued addresses, reorganisations removing payments and restarts up to the stated depth; each NewAddress outcome is compared with the issuing rule and with an independent derivation of the next address; in every state the listings, used flags and the ledger are compared with the reference and three mnemonic restores into a fresh second instance must rediscover every address with best-chain history.",
   "§5 C12"),
 "C18": (FE, "faultenum", "exhaustive storage-fault enumeration (every fallible database call index x repeat count of every base history) through a db seam",
   "For the shortest history of every state of the C01 space up to the base depth, and of a second space with API operations and background steps (mnemonic import, rescan batches, removal call and run, NewAddress, restart), each fallible wallet-database call in turn (and runs of 2/3 consecutive calls) returns an error; an operation that reported failure is repeated once storage works again (the worker's own re-queueing is modelled from what the step returned); afterwards every wallet must be ready or gone, no phantom wallet or skipped/duplicated address may exist, and all ledger queries must equal the reference ledger. A relay pass makes relayed (unconfirmed) transactions fault targets (pool transactions are announced again after the catch-up and the pending set is compared). A directed pass injects the fault below the ldb backend (every LevelDB journal write of 6 histories fails in turn; restart, catch-up, same oracle).",
   "§5 C18"),
 "C19": (MC, "apienum", "exhaustive product of per-parameter domains for every API method in 9 reachable wallet states, under recover, plus malformed relays",
   "For each of 24 reachable wallet states (among them: between two rescan batches of an import with a credit already recorded) and each of the 28 request-taking API methods the full product of small per-field domains (derived from the request type by reflection, largest domains trimmed only above the cap) is executed on the real APIServer over the real wallet under recover() with FATAL trapping, followed by a follower liveness probe (imports get a fresh valid mnemonic per call, so every combination of the other parameters meets a wallet that can still be imported; index hints around and far beyond the gap window); in every state 20 block contents the simulator can build and 12 malformed relayed transactions go to the follower entry point, which must survive and apply the next tip.",
   "§5 C19"),
 "C17": (MC, "schedexplore", "exhaustive placement enumeration of follower commits among a query's database reads on the instrumented real code (controlled scheduler + db seam gates) with a sequential-twin oracle; auxiliary free-running -race pass",
   "For 27 scenarios (4 queries x 6 writers; 17 more in the thorough tier) every placement of the follower's 1-4 block commits (connects, pay+spend, reorgs) among the database reads of WalletBalance, AddressBalance, GetUtxo and AutoCreateRawTransaction is executed on the real code; the answer must equal the answer of the same call run alone at a block boundary inside its window. The data-race clause is covered only by a sampling race-detector pass (auxiliary, not exhaustive).",
   "§5 C17"),
 "C20": (MC, "schedexplore", "stateless DFS with iterative preemption bounding over a cooperative controlled scheduler on the instrumented real follower/worker/stop code",
   "The real NtfnsHandler (handle, worker, suspend/resume, task queue, Stop) is rebuilt with every sync primitive, goroutine start and channel operation routed through a controlled scheduler (source overlay generated from the current tree). For 27 scenarios (import or removal started by an API thread or resumed from a restart, 0-2 tips announced by a node thread - the first one paying the wallet being imported -, with and without a concurrent stop request; imports of one or of several rescan batches - batch size scaled through a source overlay -, an API thread that submits three more tasks while a multi-batch import is running, one storage error reported to the real worker/follower in the middle of their work, and API write calls racing with the worker's task) every schedule with at most the stated number of preemptions runs to completion on a fresh real wallet; each execution is checked for deadlock, abnormal thread end, livelock, stop returning with the database closed exactly once, and (without stop) for every announced tip processed, every accepted task finished (no wallet left importing or marked for removal) and the ledger equal to the reference.",
   "§5 C20"),
 "C13": (MC, "enum", "bounded-exhaustive input enumeration against an independent BIP-39 reference",
   "Input-bounded model checking: every member of the described entropy / word-sequence families is run through the real mnemonic code and compared with an independent reference validated against BIP-39 vectors.", "§5 C13"),
 "C14": (MC, "enum", "bounded-exhaustive (seed x path) and corruption enumeration against an independent BIP-32 reference",
   "Input-bounded model checking: every (seed, path) of the described families, parents with leading-zero scalars reached deliberately, and every single-character corruption of serialised keys, compared with an independent CKD reference validated against BIP-32 vectors 1-3.", "§5 C14"),
 "C15": (MC, "enum", "exhaustive short-string and structured-integer enumeration against an exact decimal model",
   "Input-bounded model checking: all strings up to length 5/7 over a 12-symbol alphabet plus structured decimal and integer families, compared with exact big-integer decimal arithmetic.", "§5 C15"),
 "C16": (MC, "enum", "exhaustive script grammar and template-mutation enumeration against consensus txscript",
   "Input-bounded model checking: all scripts up to 4/5 items over a 27-item alphabet plus every one-byte mutation, truncation and extension of 21 valid templates, wallet and API readings compared with the consensus script library under recover().", "§5 C16"),
}

m = {
 "version": 1,
 "setup_cmd": "sh /verif/setup.sh",
 "hooks": {
  "guard": "verif",
  "enable": "go build -tags verif; the harness module /verif/harness replaces massnet.org/mass-wallet by /repo, so every check compiles /repo's current working tree",
  "baseline_off_cmd": "cd /repo && GOFLAGS=-mod=mod GOPROXY=off GOSUMDB=off GOTOOLCHAIN=local go test -json -vet=off -count=1 -timeout 25m ./...",
  "source_commits": hook_commits,
  "add_only": True,
 },
 "engines": [
  {"name": "histbfs", "path": "harness/cmd/vcheck/bfs.go", "serves_properties": [k for k, v in checks.items() if v[1] == "histbfs"],
   "kind_free_text": "level-synchronous explicit-state BFS; the parent owns seen-set and frontier, worker processes replay each history on a fresh real wallet + real chain DB"},
  {"name": "simnode+world", "path": "harness/simnode harness/world", "serves_properties": [k for k, v in checks.items() if v[1] == "histbfs"],
   "kind_free_text": "closed environment: real mass-core chain DB driven with synthetic blocks, reference ledger, consensus oracle"},
  {"name": "faultenum", "path": "harness/dbseam harness/models/c06 harness/cmd/vcheck/check_c06.go", "serves_properties": ["C06", "C18"],
   "kind_free_text": "db seam around mwdb.DB (call counting, error injection, stop-the-world before commit k) + enumeration of every crash/fault point of every base history"},
  {"name": "apienum", "path": "harness/models/c19", "serves_properties": ["C19"],
   "kind_free_text": "reflection-driven request enumeration over the pb request types, executed per (state, method) by the histbfs parent"},
  {"name": "reqenum", "path": "harness/models/c02", "serves_properties": ["C02", "C03"],
   "kind_free_text": "request-product enumeration per (UTXO shape, family) with reference-ledger oracle, executed by the histbfs parent"},
  {"name": "dbmodel", "path": "harness/models/c11", "serves_properties": ["C11"],
   "kind_free_text": "reference nested-map model of the wallet database + full read-back oracle, explored by the histbfs parent"},
  {"name": "schedexplore", "path": "harness/instr/shim.go.txt harness/cmd/vinstr harness/sched harness/cmd/vcheck/instr.go", "serves_properties": [k for k, v in checks.items() if v[1] == "schedexplore"],
   "kind_free_text": "source-overlay instrumentation (sync -> shim, go/close/send/recv/select rewritten by go/ast) + cooperative scheduler + preemption-bounded stateless DFS with replay-determinism self-test, sharded by first deviation over worker processes"},
  {"name": "enum", "path": "harness/enum", "serves_properties": [k for k, v in checks.items() if v[1] == "enum"],
   "kind_free_text": "bounded-exhaustive enumeration of described finite input families against independent references, sharded over 16 worker processes"},
 ],
 "checks": [],
 "not_applicable": [],
 "notes": "work in progress: remaining properties are being added; see DESIGN.md",
}
for pid, (lvl, eng, tech, text, ref) in sorted(checks.items()):
    m["checks"].append({
        "property_id": pid,
        "quick_cmd": f"/verif/bin/vcheck {pid} --tier quick",
        "thorough_cmd": f"/verif/bin/vcheck {pid} --tier thorough",
        "evidence_file": f"/verif/evidence/{pid}.json",
        "replay_cmd_template": f"/verif/bin/vcheck {pid} --replay {{path}}",
        "engine": eng,
        "level_claimed": {"category": lvl, "text": text, "design_ref": "DESIGN.md " + ref},
        "level_note": TRUST,
        "technique": tech,
    })
for i in range(1, 21):
    pid = "C%02d" % i
    if pid not in checks:
        m["not_applicable"].append({"property_id": pid, "reason": "check not built yet in this session (planned, see DESIGN.md); not a statement that the technique cannot apply"})
json.dump(m, open("/verif/MANIFEST.json", "w"), indent=1)
print("checks:", sorted(checks))
