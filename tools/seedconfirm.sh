#!/bin/bash
# Confirms that a seeded change applies, builds and leaves the pinned suite green:
# usage: seedconfirm.sh <worktree> <patch.diff>   (worktree must be a clean checkout of /repo HEAD)
WT=$1; PATCH=$2
export GOFLAGS=-mod=mod GOPROXY=off GOSUMDB=off GOTOOLCHAIN=local
cd "$WT" || exit 2
[ -z "$(git status --porcelain)" ] || { echo "CONFIRM $PATCH: worktree not clean"; exit 2; }
git apply "$PATCH" || { echo "CONFIRM $PATCH: does not apply"; exit 2; }
trap 'cd "$WT"; git checkout -- . ; git clean -fdq' EXIT
go build ./... 2>&1 | tail -3
out=$(mktemp /dev/shm/sc.XXXXXX.json)
go test -mod=mod -json -vet=off -count=1 -timeout 25m ./... > "$out" 2>/dev/null
python3 - "$out" "$PATCH" <<'PY'
import json,sys
res={}
for l in open(sys.argv[1]):
    try: e=json.loads(l)
    except: continue
    if e.get('Test') and e.get('Action') in ('pass','fail','skip'):
        res[e['Package']+'::'+e['Test']]=e['Action']
sp=json.load(open('/root/.vp/BASELINE.json'))['stable_pass']
bad=[t for t in sp if res.get(t)!='pass']
print(f"CONFIRM {sys.argv[2]}: suite {len(sp)-len(bad)}/{len(sp)} pass", "OK" if not bad else "BROKEN "+str(bad[:5]))
PY
rm -f "$out"
