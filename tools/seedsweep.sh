#!/bin/bash
# Runs seeded changes against their property's check WITHOUT touching /repo: each change is
# applied to a scratch git worktree of /repo's HEAD and the check builds that tree
# (VERIF_REPO). Made for `vp run -- tools/seedsweep.sh [tier] [C01/m1 C02/m3 ...]`: the
# working directory is a snapshot of /verif (VERIF_ROOT), so editing /verif and /repo
# meanwhile does not disturb it. Output lines are what tools/seedresults.py reads.
# Extra checks for one seed: meta.json "also_checks": ["C06"].
ROOT=$(pwd)
TIER=${1:-quick}; shift
export VERIF_ROOT=$ROOT
export GOFLAGS=-mod=mod GOPROXY=off GOSUMDB=off GOTOOLCHAIN=local
WT=$(mktemp -d /tmp/seedsweep.XXXXXX)
trap 'git -C /repo worktree remove --force $WT/repo 2>/dev/null; rm -rf $WT' EXIT
git -C /repo worktree add --detach $WT/repo HEAD >/dev/null 2>&1 || { echo "ABORT: worktree"; exit 2; }
export VERIF_REPO=$WT/repo
mkdir -p $ROOT/bin $ROOT/evidence
(cd $ROOT/harness && go build -o $ROOT/bin/vcheck ./cmd/vcheck) || exit 2
SEEDS="$*"
[ -z "$SEEDS" ] && SEEDS=$(cd $ROOT/seeded && ls -d C*/m* | sort -V)
for s in $SEEDS; do
  id=${s%%/*}; m=${s##*/}
  patch=$ROOT/seeded/$id/$m/patch.diff
  [ -f $patch ] || { echo "SKIP $s (no patch)"; continue; }
  git -C $WT/repo checkout -q -- . ; git -C $WT/repo clean -fdq
  git -C $WT/repo apply $patch || { echo "RESULT $id $m/patch.diff: $id:ERROR(apply)"; continue; }
  also=$(python3 -c "import json,sys;print(' '.join(json.load(open('$ROOT/seeded/$id/$m/meta.json')).get('also_checks',[])))" 2>/dev/null)
  res=""
  for c in $id $also; do
    t0=$(date +%s)
    out=$(timeout 3600 $ROOT/bin/vcheck $c --tier $TIER 2>/dev/null); code=$?
    first=$(echo "$out" | grep -A2 -m1 "^VIOLATION\|^HARNESS-ERROR" | cut -c1-300 | tr '\n' ' ')
    dt=$(( $(date +%s) - t0 ))
    if [ $code -eq 1 ]; then res="$res $c:DETECTED"; echo "[$c/$TIER ${dt}s] exit=1 $first"
    elif [ $code -eq 0 ]; then res="$res $c:missed"; echo "[$c/$TIER ${dt}s] exit=0 (no violation)"
    else res="$res $c:ERROR($code)"; echo "[$c/$TIER ${dt}s] exit=$code $first"; fi
    rm -rf $ROOT/replays/$c
  done
  echo "RESULT $id $m/patch.diff:$res"
done
