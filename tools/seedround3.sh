#!/bin/bash
# confirm the round-3 seeds of one property (worktree /tmp/seed3/<id>, patches /tmp/seed3/out/<id>/m{1,2}.diff)
id=$1
for m in m1 m2; do
  /verif/tools/seedconfirm.sh /tmp/seed3/$id /tmp/seed3/out/$id/$m.diff 2>&1 | grep CONFIRM
done
