#!/bin/bash
# Runs the repository's own pinned test suite (build tag OFF) on /repo's current tree and
# compares with the stable_pass list of /root/.vp/BASELINE.json.
export GOFLAGS=-mod=mod GOPROXY=off GOSUMDB=off GOTOOLCHAIN=local
out=$(mktemp /dev/shm/baseline.XXXXXX.json)
(cd /repo && go test -mod=mod -json -vet=off -count=1 -timeout 25m ./... > "$out" 2>/dev/null)
python3 - "$out" <<'PY'
import json,sys
res={}
for l in open(sys.argv[1]):
    try: e=json.loads(l)
    except: continue
    if e.get('Test') and e.get('Action') in ('pass','fail','skip'):
        res[e['Package']+'::'+e['Test']]=e['Action']
b=json.load(open('/root/.vp/BASELINE.json'))
sp=b['stable_pass']
bad=[t for t in sp if res.get(t)!='pass']
print(f"baseline: {len(sp)} expected, {sum(1 for t in sp if res.get(t)=='pass')} pass, {len(bad)} not passing")
for t in bad: print("  NOT PASSING:",t,res.get(t))
sys.exit(1 if bad else 0)
PY
rc=$?
rm -f "$out"
exit $rc
