#!/usr/bin/env python3
"""Copies a confirmed seeded change from /tmp/seed/out/<id>/ into /verif/seeded/<id>/<mN>/ (patch.diff, demo, meta.json)."""
import json, os, shutil, sys, re
pid, m = sys.argv[1], sys.argv[2]
src = f"/tmp/seed/out/{pid}"
dm = m
if m.startswith("r2:"):  # second round: /tmp/seed/out2/<id>/m1,m2 are kept as m3,m4
    m = m[3:]
    src = f"/tmp/seed/out2/{pid}"
    dm = {"m1": "m3", "m2": "m4"}[m]
rnd = 2 if dm in ("m3", "m4") else 1
if m.startswith("r3:"):  # third round: /tmp/seed3/out/<id>/m1,m2 are kept as m5,m6
    m = m[3:]
    src = f"/tmp/seed3/out/{pid}"
    dm = {"m1": "m5", "m2": "m6"}[m]
    rnd = 3
if m.startswith("r4:"):  # fourth round: /tmp/seed3/out/<id>/m1,m2 are kept as m7,m8
    m = m[3:]
    src = f"/tmp/seed3/out/{pid}"
    dm = {"m1": "m7", "m2": "m8"}[m]
    rnd = 4
dst = f"/verif/seeded/{pid}/{dm}"
os.makedirs(dst, exist_ok=True)
shutil.copy(f"{src}/{m}.diff", f"{dst}/patch.diff")
shutil.copy(f"{src}/{m}.md", f"{dst}/demo.md")
if os.path.exists(f"{src}/{m}_demo_test.go"):
    shutil.copy(f"{src}/{m}_demo_test.go", f"{dst}/demo_test.go.txt")
files = sorted(set(re.findall(r"^\+\+\+ b/(\S+)", open(f"{dst}/patch.diff").read(), re.M)))
meta_p = f"{dst}/meta.json"
meta = json.load(open(meta_p)) if os.path.exists(meta_p) else {}
meta.update({"property": pid, "seed": dm, "round": rnd, "files": files,
  "origin": "independent sub-agent given only the property text and a scratch worktree of /repo (nothing from /verif)",
  "confirmed": {"applies_builds": True, "pinned_suite_170_of_170": True, "reviewed_by_hand": True},
  "how_to_test": f"git -C /repo apply /verif/seeded/{pid}/{dm}/patch.diff; /verif/bin/vcheck {pid} --tier quick; git -C /repo checkout -- .   (or /verif/tools/seedtest.sh {pid} /verif/seeded/{pid}/{dm}/patch.diff)"})
if len(sys.argv) > 3:
    meta["summary"] = sys.argv[3]
json.dump(meta, open(meta_p, "w"), indent=1)
print("saved", dst)
