#!/usr/bin/env python3
"""Turns the log of a full `seedtest.sh` sweep into /verif/seeded/RESULTS.txt and records the
verdict in each seed's meta.json. usage: seedresults.py <log> [label]"""
import json, re, sys, os, subprocess
log = []
for f in sys.argv[1].split(","):
    log += open(f).read().splitlines()
label = sys.argv[2] if len(sys.argv) > 2 else "quick tier"
verif = subprocess.run(["git", "-C", "/verif", "log", "--format=%h", "-1"], capture_output=True, text=True).stdout.strip()
repo = subprocess.run(["git", "-C", "/repo", "log", "--format=%h", "-1"], capture_output=True, text=True).stdout.strip()
rows, first = [], {}
cur = []
for l in log:
    if l.startswith("["):
        cur.append(l)
    m = re.match(r"RESULT (\S+) (\S+)/patch.diff:(.*)", l)
    if m:
        pid, seed, verdicts = m.group(1), m.group(2), m.group(3).split()
        rows.append((pid, seed, verdicts, cur))
        cur = []
# a seed tested more than once (re-test after a check was strengthened): the last result counts
last = {}
for r in rows:
    last[(r[0], r[1])] = r
rows = sorted(last.values(), key=lambda r: (r[0], int(r[1][1:])))
out = [f"Seeded changes vs. the registered checks ({label}); /verif at {verif}, /repo at {repo}.",
       "Each line: property seed -> verdict per check run (DETECTED = exit 1 with a VIOLATION line).", ""]
det = 0
neutral = 0
for pid, seed, verdicts, lines in rows:
    ok = any(v.endswith(":DETECTED") for v in verdicts)
    mp = f"/verif/seeded/{pid}/{seed}/meta.json"
    if os.path.exists(mp) and json.load(open(mp)).get("neutralised"):
        # a later fix: commit made this change harmless: it no longer breaks the property
        neutral += 1
        out.append(f"{pid} {seed}: not counted - no longer breaks the property on the current tree ({json.load(open(mp))['neutralised'][:160]}...)")
        continue
    det += ok
    meta_p = f"/verif/seeded/{pid}/{seed}/meta.json"
    summary = ""
    if os.path.exists(meta_p):
        meta = json.load(open(meta_p))
        summary = meta.get("summary", "")
        meta["detection"] = {"tier": label, "verdicts": verdicts,
                             "first_report": next((re.sub(r"\s+", " ", x)[:300] for x in lines if "exit=1" in x), "")}
        json.dump(meta, open(meta_p, "w"), indent=1)
    out.append(f"{pid} {seed}: {' '.join(verdicts)}   | {summary}")
out.append("")
out.append(f"{det} of {len(rows) - neutral} seeded changes reported by at least one of the checks run against them ({neutral} not counted, see above).")
open("/verif/seeded/RESULTS.txt", "w").write("\n".join(out) + "\n")
print(out[-1])
