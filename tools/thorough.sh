#!/bin/sh
# Runs the thorough tier of the given checks (default: all) from the directory it is started in
# (a `vp run --with-repo` snapshot of /verif): builds there, writes evidence there, and builds
# the repository snapshot $VP_RUN_REPO if set, so that edits to /verif and /repo do not disturb it.
ROOT=$(pwd)
export VERIF_ROOT=$ROOT
[ -n "$VP_RUN_REPO" ] && export VERIF_REPO=$VP_RUN_REPO
export GOFLAGS=-mod=mod GOPROXY=off GOSUMDB=off GOTOOLCHAIN=local
mkdir -p $ROOT/bin $ROOT/evidence
(cd $ROOT/harness && go build -o $ROOT/bin/vcheck ./cmd/vcheck) || exit 2
IDS=${*:-C01 C02 C03 C04 C05 C06 C07 C08 C09 C10 C11 C12 C13 C14 C15 C16 C17 C18 C19 C20}
for id in $IDS; do
  s=$(date +%s)
  out=$(timeout 7200 $ROOT/bin/vcheck $id --tier thorough 2>/dev/null | grep -v "^    " | tail -6 | cut -c1-300)
  echo "== $id ($(( $(date +%s) - s ))s)"; echo "$out"
done
