#!/bin/sh
# Runs every registered check (tier $1, default quick) and validates manifest + evidence.
TIER=${1:-quick}
cd /verif
sh setup.sh >/dev/null || exit 2
rc=0
for id in $(python3 -c "import json;print(' '.join(c['property_id'] for c in json.load(open('MANIFEST.json'))['checks']))"); do
  s=$(date +%s)
  out=$(timeout 3600 ./bin/vcheck $id --tier $TIER 2>/dev/null | grep -v "^    " | cut -c1-160 | tail -3)
  code=$?
  echo "$id ($(( $(date +%s) - s ))s): $out"
done
python3-vt - <<'PY'
import json,jsonschema,glob
m=json.load(open('/verif/MANIFEST.json'))
jsonschema.validate(m,json.load(open('/root/.vp/MANIFEST.schema.json')))
es=json.load(open('/root/.vp/EVIDENCE.schema.json'))
for c in m['checks']:
    e=json.load(open(c['evidence_file']))
    jsonschema.validate(e,es)
    assert e['property_id']==c['property_id'] and e['level']==c['level_claimed']['category'], c['property_id']
print('manifest and evidence valid for', len(m['checks']), 'checks')
PY
