// Package faultstor is a goleveldb storage whose journal writes can be made to fail: a
// storage fault BELOW the wallet's ldb backend, so that the backend's own error paths (what
// Commit does when the LevelDB write fails) run. After a failed journal write goleveldb keeps
// refusing writes until the database is reopened (its journal writer keeps the error) - the
// scenario this models is "the disk reported an error, the operator restarts the wallet".
package faultstor

import (
	"errors"
	"sync"

	"github.com/syndtr/goleveldb/leveldb/storage"
)

// ErrInjected is the injected write error.
var ErrInjected = errors.New("verif: injected journal write error")

// Storage wraps an in-memory goleveldb storage.
type Storage struct {
	storage.Storage
	mu     sync.Mutex
	Writes int // journal Write calls counted since Reset
	FailAt int // 1-based index of the journal Write that fails (0 = none)
	Armed  bool
	Failed int // injected failures so far
}

// New returns a fault-capable in-memory storage.
func New() *Storage { return &Storage{Storage: storage.NewMemStorage()} }

// Reset restarts the count.
func (s *Storage) Reset() {
	s.mu.Lock()
	s.Writes, s.Failed = 0, 0
	s.mu.Unlock()
}

type writer struct {
	storage.Writer
	s       *Storage
	journal bool
}

func (w *writer) Write(p []byte) (int, error) {
	if w.journal {
		w.s.mu.Lock()
		w.s.Writes++
		fail := w.s.Armed && w.s.FailAt > 0 && w.s.Writes >= w.s.FailAt
		if fail {
			w.s.Failed++
		}
		w.s.mu.Unlock()
		if fail {
			return 0, ErrInjected
		}
	}
	return w.Writer.Write(p)
}

// Create wraps the writers of journal files.
func (s *Storage) Create(fd storage.FileDesc) (storage.Writer, error) {
	w, err := s.Storage.Create(fd)
	if err != nil {
		return nil, err
	}
	return &writer{Writer: w, s: s, journal: fd.Type == storage.TypeJournal}, nil
}
