package world

import (
	"fmt"
	"sort"

	"massnet.org/mass-wallet/masswallet"
)

// UtxoObs is one reported unspent output.
type UtxoObs struct {
	Addr   string `json:"addr"`
	TxID   string `json:"txid"`
	Vout   uint32 `json:"vout"`
	Amount int64  `json:"amount"`
	Height uint64 `json:"height"`
	Confs  uint32 `json:"confs"`
	SBU    bool   `json:"spent_by_unmined,omitempty"`
}

// Bal is a balance quadruple in maxwell.
type Bal struct {
	Total, Spendable, WStaking, WBinding int64
}

// WalletObs is what the public query surface reports for one wallet.
type WalletObs struct {
	Role     string         `json:"role"`
	Err      string         `json:"err,omitempty"`
	UseTotal int64          `json:"use_total"`
	Bal      Bal            `json:"bal"`
	AddrBal  map[string]Bal `json:"addr_bal"`
	Utxos    []UtxoObs      `json:"utxos"`
}

// Obs is the canonical observation of the whole instance.
type Obs struct {
	SyncedTo uint64      `json:"synced_to"`
	Wallets  []WalletObs `json:"wallets"`
}

func sortUtxos(u []UtxoObs) {
	sort.Slice(u, func(i, j int) bool {
		if u[i].Addr != u[j].Addr {
			return u[i].Addr < u[j].Addr
		}
		if u[i].TxID != u[j].TxID {
			return u[i].TxID < u[j].TxID
		}
		return u[i].Vout < u[j].Vout
	})
}

// ObserveWallet queries one wallet through the public API only.
func (w *World) ObserveWallet(role string) WalletObs {
	wl := w.Wallets[role]
	o := WalletObs{Role: role, AddrBal: map[string]Bal{}}
	info, err := w.I.W.UseWallet(wl.ID)
	if err != nil {
		o.Err = "UseWallet: " + err.Error()
		return o
	}
	o.UseTotal = info.TotalBalance.IntValue()
	wb, err := w.I.W.WalletBalance(1, true)
	if err != nil {
		o.Err = "WalletBalance: " + err.Error()
		return o
	}
	o.Bal = Bal{wb.Total.IntValue(), wb.Spendable.IntValue(), wb.WithdrawableStaking.IntValue(), wb.WithdrawableBinding.IntValue()}
	abs, err := w.I.W.AddressBalance(1, nil)
	if err != nil {
		o.Err = "AddressBalance: " + err.Error()
		return o
	}
	for _, ab := range abs {
		o.AddrBal[ab.Address] = Bal{ab.Total.IntValue(), ab.Spendable.IntValue(), ab.WithdrawableStaking.IntValue(), ab.WithdrawableBinding.IntValue()}
	}
	um, err := w.I.W.GetUtxo(nil)
	if err != nil {
		o.Err = "GetUtxo: " + err.Error()
		return o
	}
	for a, l := range um {
		for _, u := range l {
			o.Utxos = append(o.Utxos, UtxoObs{Addr: a, TxID: u.TxId, Vout: u.Vout, Amount: u.Amount.IntValue(),
				Height: u.BlockHeight, Confs: u.Confirmations, SBU: u.SpentByUnmined})
		}
	}
	sortUtxos(o.Utxos)
	return o
}

// Roles lists wallet roles in canonical order.
func (w *World) Roles() []string {
	var r []string
	for k := range w.Wallets {
		r = append(r, k)
	}
	sort.Strings(r)
	return r
}

// Observe queries every wallet and leaves wallet A selected.
func (w *World) Observe() *Obs {
	o := &Obs{}
	h, err := w.I.W.SyncedTo()
	if err != nil {
		o.SyncedTo = ^uint64(0)
	} else {
		o.SyncedTo = h
	}
	for _, r := range w.ReadyRoles() {
		o.Wallets = append(o.Wallets, w.ObserveWallet(r))
	}
	w.I.W.UseWallet(w.Wallets["A"].ID)
	return o
}

// Expected computes from the reference ledger what ObserveWallet must report.
func (w *World) Expected(role string, l *Ledger) WalletObs {
	wl := w.Wallets[role]
	e := WalletObs{Role: role, AddrBal: map[string]Bal{}}
	for _, a := range wl.Addrs {
		e.AddrBal[a.Std] = Bal{}
	}
	for _, c := range l.Unspent(OwnedBy(role)) {
		if c.Value == 0 {
			continue
		}
		e.Utxos = append(e.Utxos, UtxoObs{Addr: c.Owner.Std, TxID: c.OP.Hash.String(), Vout: c.OP.Index,
			Amount: c.Value, Height: c.Height, Confs: uint32(l.Height - c.Height + 1)})
		b := e.AddrBal[c.Owner.Std]
		b.Total += c.Value
		e.Bal.Total += c.Value
		if w.NextSpendable(c, l) {
			switch c.Class {
			case ClassStd:
				b.Spendable += c.Value
				e.Bal.Spendable += c.Value
			case ClassStaking:
				b.WStaking += c.Value
				e.Bal.WStaking += c.Value
			case ClassBinding:
				b.WBinding += c.Value
				e.Bal.WBinding += c.Value
			}
		}
		e.AddrBal[c.Owner.Std] = b
	}
	e.UseTotal = e.Bal.Total
	sortUtxos(e.Utxos)
	return e
}

// DiffWallet lists the differences between an observation and the expectation.
// ignoreSBU: C01 does not constrain the pending flag (no pending transactions exist).
func DiffWallet(got, want WalletObs) []string {
	var d []string
	if got.Err != "" {
		return []string{fmt.Sprintf("%s: query failed: %s", got.Role, got.Err)}
	}
	if got.UseTotal != want.UseTotal {
		d = append(d, fmt.Sprintf("%s: UseWallet.TotalBalance=%d want %d", got.Role, got.UseTotal, want.UseTotal))
	}
	if got.Bal != want.Bal {
		d = append(d, fmt.Sprintf("%s: WalletBalance=%+v want %+v", got.Role, got.Bal, want.Bal))
	}
	for a, wb := range want.AddrBal {
		if gb, ok := got.AddrBal[a]; !ok {
			d = append(d, fmt.Sprintf("%s: AddressBalance misses %s", got.Role, a))
		} else if gb != wb {
			d = append(d, fmt.Sprintf("%s: AddressBalance[%s]=%+v want %+v", got.Role, a, gb, wb))
		}
	}
	for a := range got.AddrBal {
		if _, ok := want.AddrBal[a]; !ok {
			d = append(d, fmt.Sprintf("%s: AddressBalance has unexpected address %s", got.Role, a))
		}
	}
	gm := map[string]UtxoObs{}
	for _, u := range got.Utxos {
		k := fmt.Sprintf("%s:%d", u.TxID, u.Vout)
		if _, dup := gm[k]; dup {
			d = append(d, fmt.Sprintf("%s: GetUtxo reports %s twice", got.Role, k))
		}
		gm[k] = u
	}
	for _, u := range want.Utxos {
		k := fmt.Sprintf("%s:%d", u.TxID, u.Vout)
		g, ok := gm[k]
		if !ok {
			d = append(d, fmt.Sprintf("%s: GetUtxo misses %s (amount %d height %d addr %s)", got.Role, k, u.Amount, u.Height, u.Addr))
			continue
		}
		delete(gm, k)
		if g.Addr != u.Addr || g.Amount != u.Amount || g.Height != u.Height || g.Confs != u.Confs {
			d = append(d, fmt.Sprintf("%s: GetUtxo %s = %+v want %+v", got.Role, k, g, u))
		}
	}
	for k, g := range gm {
		d = append(d, fmt.Sprintf("%s: GetUtxo reports %s (%+v) which the best chain does not pay/has spent", got.Role, k, g))
	}
	sort.Strings(d)
	return d
}

// CheckLedger is the C01 oracle in a quiescent state.
func (w *World) CheckLedger() (diffs []string, obs *Obs) {
	diffs = append(diffs, w.Panics...)
	l := w.Ledger()
	obs = w.Observe()
	if obs.SyncedTo != l.Height {
		diffs = append(diffs, fmt.Sprintf("SyncedTo=%d want %d", obs.SyncedTo, l.Height))
	}
	for _, wo := range obs.Wallets {
		diffs = append(diffs, DiffWallet(wo, w.Expected(wo.Role, l))...)
	}
	return diffs, obs
}

var _ = masswallet.ErrNoWalletInUse
