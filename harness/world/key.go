package world

import (
	"bytes"
	"crypto/sha256"
	"encoding/hex"
	"encoding/json"
	"fmt"
	"sort"

	"massnet.org/mass-wallet/masswallet/db/ldb"
)

// KV is one raw key/value pair of the wallet database.
type KV struct{ K, V []byte }

var unminedPrefix = []byte("2_t_m_")

// RawDump returns every raw key/value of the wallet database, with the 8-byte receive
// time of pending-transaction records zeroed (the only wall-clock value persisted).
func (w *World) RawDump() []KV {
	var out []KV
	ok := ldb.VerifRawIterate(w.I.Raw, func(k, v []byte) {
		if bytes.HasPrefix(k, unminedPrefix) && len(v) >= 8 {
			v = append([]byte{}, v...)
			for i := 0; i < 8; i++ {
				v[i] = 0
			}
		}
		out = append(out, KV{k, v})
	})
	if !ok {
		panic("HARNESS-ERROR RawDump: not an ldb.LevelDB")
	}
	return out
}

// DumpHash hashes a raw dump.
func DumpHash(d []KV) string {
	h := sha256.New()
	for _, kv := range d {
		var l [8]byte
		l[0] = byte(len(kv.K))
		l[1] = byte(len(kv.K) >> 8)
		l[2] = byte(len(kv.V))
		l[3] = byte(len(kv.V) >> 8)
		l[4] = byte(len(kv.V) >> 16)
		h.Write(l[:])
		h.Write(kv.K)
		h.Write(kv.V)
	}
	return hex.EncodeToString(h.Sum(nil))
}

// Key is the deduplication key of the explorers: chain tree, notification queue, the whole
// normalised wallet database and the handler's volatile state. Two worlds with equal keys
// have the same futures (DESIGN §3.2).
func (w *World) Key() string {
	h := sha256.New()
	tip := w.N.Tip().Hash
	h.Write(tip[:])
	var all []string
	for k, b := range w.N.All {
		p := ""
		if b.Parent != nil {
			p = b.Parent.Hash.String()
		}
		all = append(all, k.String()+"<"+p)
	}
	sort.Strings(all)
	for _, s := range all {
		h.Write([]byte(s))
	}
	for _, q := range w.N.Queue {
		if q.Block != nil {
			x := q.Block.BlockHash()
			h.Write([]byte("B"))
			h.Write(x[:])
		} else {
			x := q.Tx.TxHash()
			h.Write([]byte("T"))
			h.Write(x[:])
		}
	}
	h.Write([]byte(DumpHash(w.RawDump())))
	v, _ := json.Marshal(w.I.W.VerifVolatile())
	h.Write(v)
	// what the worker's queue holds (modelled by the harness in direct mode)
	h.Write([]byte(fmt.Sprint(w.ImportQueued, w.RemoveFailed)))
	return hex.EncodeToString(h.Sum(nil)[:16])
}
