// Package world closes the system: one simulator node, one wallet instance holding the
// wallets A and B, a stranger, a reference ledger and the event alphabet shared by the
// history explorers (C01, C06, C09, C10, C18 ...).
package world

import (
	"encoding/hex"
	"fmt"
	"path/filepath"
	"runtime/debug"
	"strings"
	"time"

	"github.com/massnetorg/mass-core/blockchain"
	"github.com/massnetorg/mass-core/consensus"
	"github.com/massnetorg/mass-core/consensus/forks"
	"github.com/massnetorg/mass-core/massutil"
	"github.com/massnetorg/mass-core/txscript"
	"github.com/massnetorg/mass-core/wire"
	"github.com/syndtr/goleveldb/leveldb/storage"
	"massnet.org/mass-wallet/config"
	mwdb "massnet.org/mass-wallet/masswallet/db"
	"vh/enum"
	"vh/env"
	"vh/inst"
	"vh/simnode"
)

// Addr is one wallet address known to the world.
type Addr struct {
	Wallet  string // role: "A", "B"
	Idx     int
	Std     string // standard (witness v0) encoding
	Staking string // staking encoding of the same script hash
	Hash    []byte
	Pk      []byte // standard pkScript
}

// Wallet is one wallet role.
type Wallet struct {
	Role     string
	ID       string
	Pass     string
	Mnemonic string
	Addrs    []*Addr
}

// Options configure a world.
type Options struct {
	Gap      uint32
	Cons     env.Consensus
	Prefix   int // stranger-funding prefix blocks (default: coinbase maturity)
	NoB      bool
	Wrap     func(mwdb.DB) mwdb.DB
	SeedName string
	DiskDB   bool // use the real on-disk CreateDB/OpenDB path instead of in-memory storage
	NoAddrs  bool // do not issue any address at setup (C12)
	// MemStorage, if set, is the goleveldb storage of the wallet database (fault injection
	// below the ldb backend); default: a fresh in-memory storage
	MemStorage storage.Storage
	// HarnessDB, if set, brackets database use by the harness itself (fault enumeration must
	// neither count nor fail the status queries the simulator issues to decide enabledness).
	HarnessDB func(begin bool)
}

// World is the closed system.
type World struct {
	Dir           string
	Opt           Options
	N             *simnode.Node
	I             *inst.Inst
	Wallets       map[string]*Wallet
	owner         map[string]*Addr
	SPk           []byte // stranger standard pkScript
	SHash         []byte
	S2Pk          []byte // second stranger script (double-spend destination)
	S3Pk          []byte // third stranger script: funds the foreign input of jointly funded spends ("sj")
	S3Hash        []byte
	led           *Ledger
	ledTip        wire.Hash
	refC          *enum.RefWallet
	Pend          *PendingRef
	BReimported   bool
	statusCache   map[string]string
	Restarts      int
	NewAddrCalls  int
	RemoveFailed  bool // the last background removal run returned an error
	ImportQueued  bool // the worker holds an import task for wallet C
	CImportHint   uint32
	CImportHeight uint64
	CUsedAtImport map[uint32]bool
	Relayed       []*wire.MsgTx
	RelayedKind   []string
	// HandlerErrs collects errors returned by the handler entry points (handle() only logs them).
	HandlerErrs []string
	// Panics lists panics caught while the follower entry points ran (Deliver)
	Panics []string
	// KeepSelection: RemoveRun must not select the survivor first (C19: the state in which the
	// SELECTED wallet is removed)
	KeepSelection bool
	// RemovalSideEffects: what a completed removal changed for wallets other than the removed one
	RemovalSideEffects []string
	// SharedNode: the node belongs to a Base shared by many forks (fork.go); Close leaves it open
	SharedNode bool
}

func shortStack() string {
	l := strings.Split(string(debug.Stack()), "\n")
	var keep []string
	for _, x := range l {
		if strings.Contains(x, "mass-wallet/masswallet") && !strings.Contains(x, "verif_export") {
			keep = append(keep, strings.TrimSpace(x))
		}
		if len(keep) >= 6 {
			break
		}
	}
	return strings.Join(keep, " | ")
}

const (
	Mass       = int64(100000000)
	fee        = int64(100000)
	PassA      = "privpassA1"
	PassB      = "privpassB2"
	strangerCB = 6
)

func fixedHash(b byte) []byte {
	h := make([]byte, 32)
	for i := range h {
		h[i] = b
	}
	return h
}

func stdPk(hash []byte) []byte {
	pk, err := txscript.PayToWitnessScriptHashScript(hash)
	env.Must(err, "stdPk")
	return pk
}

// New builds a world under dir: node at genesis, wallet instance, wallets A (two
// addresses) and B (one address), then a prefix of stranger-funding blocks that the
// wallet processes like any other block.
func New(dir string, opt Options) (*World, error) {
	if opt.Gap == 0 {
		opt.Gap = 20
	}
	if opt.Cons == (env.Consensus{}) {
		opt.Cons = env.Small
	}
	env.SetConsensus(opt.Cons)
	env.RestoreRand()
	oracle() // built under system randomness, before the deterministic stream starts
	(&simnode.Server{N: oracleNode}).SyncManager()
	env.SeedRand("world:" + opt.SeedName)
	n, err := simnode.New(filepath.Join(dir, "node"))
	if err != nil {
		return nil, err
	}
	st := inst.NewMemStore()
	if opt.MemStorage != nil {
		st = &inst.Store{Mem: opt.MemStorage}
	}
	if opt.DiskDB {
		st = &inst.Store{Dir: filepath.Join(dir, "wallet")}
	}
	i, err := inst.OpenAt(st, n, opt.Gap, inst.PubPass, opt.Wrap)
	if err != nil {
		return nil, err
	}
	w := &World{Dir: dir, Opt: opt, N: n, I: i, Wallets: map[string]*Wallet{}, owner: map[string]*Addr{}}
	w.Pend = &PendingRef{Txs: map[wire.Hash]*wire.MsgTx{}, Tip: n.Tip()}
	w.SHash = fixedHash(0x51)
	w.SPk = stdPk(w.SHash)
	w.S2Pk = stdPk(fixedHash(0x52))
	w.S3Hash = fixedHash(0x53)
	w.S3Pk = stdPk(w.S3Hash)
	na := 2
	if opt.NoAddrs {
		na = 0
	}
	if err := w.createWallet("A", PassA, na); err != nil {
		return nil, err
	}
	if !opt.NoB {
		if err := w.createWallet("B", PassB, 1); err != nil {
			return nil, err
		}
	}
	p := opt.Prefix
	if p == 0 {
		p = int(opt.Cons.CoinbaseMaturity)
	}
	for k := 0; k < p; k++ {
		txs := []*wire.MsgTx{w.strangerCoinbase(n.Height() + 1)}
		if p >= 10 && k == 5 {
			// long prefixes carry early history of the external wallet C, so that a later
			// restore has activity in its FIRST rescan batch as well
			if ptx, ok := w.payCContent(1, w.Ledger()); ok {
				txs = ptx
			}
		}
		if _, err := n.Extend(txs); err != nil {
			return nil, err
		}
		if err := w.Deliver(); err != nil {
			return nil, err
		}
	}
	if len(w.HandlerErrs) > 0 {
		return nil, fmt.Errorf("prefix delivery failed: %v", w.HandlerErrs)
	}
	return w, nil
}

func (w *World) createWallet(role, pass string, naddr int) error {
	id, mn, _, err := w.I.W.CreateWallet(pass, role, 128)
	if err != nil {
		return fmt.Errorf("CreateWallet %s: %v", role, err)
	}
	wl := &Wallet{Role: role, ID: id, Pass: pass, Mnemonic: mn}
	w.Wallets[role] = wl
	if _, err := w.I.W.UseWallet(id); err != nil {
		return err
	}
	for k := 0; k < naddr; k++ {
		if _, err := w.NewAddress(role); err != nil {
			return err
		}
	}
	return nil
}

// NewAddress issues the next standard address of role (the wallet must be selected).
func (w *World) NewAddress(role string) (*Addr, error) {
	wl := w.Wallets[role]
	s, err := w.I.W.NewAddress(massutil.AddressClassWitnessV0)
	if err != nil {
		return nil, err
	}
	return w.RegisterAddr(wl, s)
}

// RegisterAddr records an address string as belonging to a wallet role.
func (w *World) RegisterAddr(wl *Wallet, s string) (*Addr, error) {
	a, err := massutil.DecodeAddress(s, config.ChainParams)
	if err != nil {
		return nil, err
	}
	st, err := massutil.NewAddressStakingScriptHash(a.ScriptAddress(), config.ChainParams)
	if err != nil {
		return nil, err
	}
	ad := &Addr{Wallet: wl.Role, Idx: len(wl.Addrs), Std: s, Staking: st.EncodeAddress(),
		Hash: a.ScriptAddress(), Pk: stdPk(a.ScriptAddress())}
	wl.Addrs = append(wl.Addrs, ad)
	w.owner[hex.EncodeToString(ad.Hash)] = ad
	return ad, nil
}

func (w *World) strangerCoinbase(height uint64) *wire.MsgTx {
	tx := w.N.CoinbaseTx(height, w.SPk, 10*Mass)
	for k := 1; k < strangerCB; k++ {
		tx.AddTxOut(&wire.TxOut{Value: 10 * Mass, PkScript: w.SPk})
	}
	tx.AddTxOut(&wire.TxOut{Value: 10 * Mass, PkScript: w.S3Pk})
	return tx
}

// Close releases node and wallet databases (no goroutines are running in direct mode).
func (w *World) Close() {
	if w.I != nil && w.I.Raw != nil {
		w.I.CloseRaw()
	}
	if !w.SharedNode {
		w.N.Close()
	}
}

// Deliver hands the oldest queued notification to the handler entry point, exactly what
// handle() does with one queue item; the error is recorded, as handle() only logs it.
func (w *World) Deliver() error {
	nt, ok := w.N.Pop()
	if !ok {
		return fmt.Errorf("nothing queued")
	}
	var err error
	func() {
		// handle() runs under Recover(): a panic while processing a notification ends the
		// follower goroutine silently. Here it is caught and recorded (C19: "every block and
		// unconfirmed transaction the node can deliver is processed without a panic").
		defer func() {
			if e := recover(); e != nil {
				if fmt.Sprintf("%T", e) == "dbseam.Crash" {
					panic(e) // a planned stop of the process (C06), not a defect
				}
				w.Panics = append(w.Panics, fmt.Sprintf("follower panicked while processing a notification: %v | %s", e, shortStack()))
				err = fmt.Errorf("PANIC: %v", e)
			}
		}()
		if nt.Block != nil {
			w.refDeliverBlock(nt.Block)
			err = w.I.W.VerifProcessBlock(nt.Block)
		} else {
			w.refDeliverTx(nt.Tx)
			err = w.I.W.VerifProcessTx(nt.Tx)
		}
	}()
	if err != nil {
		w.HandlerErrs = append(w.HandlerErrs, err.Error())
	}
	return nil
}

// ---- consensus oracle ----

var (
	oracleNode  *simnode.Node
	oracleChain *blockchain.Blockchain
)

// oracle returns one process-wide consensus object over a private genesis-only chain
// database. CalcSequenceLock for confirmed inputs with block-based relative locks depends
// only on the heights in the TxStore it is given, not on that chain's tip, so one instance
// serves every world (each NewBlockchain leaks a goroutine and its caches).
func oracle() *blockchain.Blockchain {
	if oracleChain == nil {
		n, err := simnode.New(filepath.Join(env.Scratch(), "oracle-node"))
		env.Must(err, "oracle node")
		oracleNode = n
		oracleChain = (&simnode.Server{N: n}).Blockchain()
	}
	return oracleChain
}

// NextSpendable asks the consensus library whether the NEXT block may spend c: coinbase
// maturity through blockchain.CheckTransactionInputs, staking/binding locks through
// Blockchain.CalcSequenceLock + SequenceLockActive on the spend consensus expects.
func (w *World) NextSpendable(c *Coin, l *Ledger) bool {
	next := l.Height + 1
	tx := wire.NewMsgTx()
	in := wire.NewTxIn(&c.OP, nil)
	in.Sequence = SpendSequence(c, forks.EnforceMASSIP0002WarmUp, consensus.MASSIP0002BindingLockedPeriod)
	tx.AddTxIn(in)
	tx.AddTxOut(&wire.TxOut{Value: c.Value, PkScript: w.SPk})
	spent := make([]bool, len(c.Tx.TxOut))
	store := blockchain.TxStore{c.OP.Hash: &blockchain.TxData{
		Tx: massutil.NewTx(c.Tx), Hash: &c.OP.Hash, BlockHeight: c.Height, Spent: spent}}
	utx := massutil.NewTx(tx)
	if _, err := blockchain.CheckTransactionInputs(utx, next, store); err != nil {
		return false
	}
	lock, err := oracle().CalcSequenceLock(utx, store)
	if err != nil {
		return false
	}
	return blockchain.SequenceLockActive(lock, next, time.Unix(1<<40, 0))
}

// Restart drops the wallet manager and every volatile structure and reopens the same
// wallet database the way loader.openWallet does (goroutines are not started in direct mode).
func (w *World) Restart() error {
	if w.I.Raw != nil {
		w.I.CloseRaw()
		w.I.Raw = nil
	}
	i, err := inst.OpenAt(w.I.Store, w.N, w.Opt.Gap, inst.PubPass, w.Opt.Wrap)
	if err != nil {
		return err
	}
	w.I = i
	w.Restarts++
	return nil
}

// ReopenAfterStop reopens the wallet database after WalletManager.Stop closed it.
func (w *World) ReopenAfterStop() error {
	i, err := inst.OpenAt(w.I.Store, w.N, w.Opt.Gap, inst.PubPass, nil)
	if err != nil {
		return err
	}
	w.I = i
	return nil
}

// UseOracleChain lets the wallet's server hand out the process-wide oracle chain object
// (scheduler scenarios that start the handler thousands of times; no relayed transactions).
func (w *World) UseOracleChain() { w.N.FixBlockchain(oracle()) }
