package world

import (
	"encoding/hex"
	"fmt"
	"sort"
	"time"

	"github.com/massnetorg/mass-core/blockchain"
	"github.com/massnetorg/mass-core/consensus"
	"github.com/massnetorg/mass-core/consensus/forks"
	"github.com/massnetorg/mass-core/massutil"
	"github.com/massnetorg/mass-core/wire"
	"massnet.org/mass-wallet/config"
	"massnet.org/mass-wallet/masswallet"
)

type gameEntry struct {
	TxID    string
	Vout    uint32
	Height  uint64
	Amount  int64
	Frozen  uint64
	Addr    string // staking address / holder address
	Target  string // binding target script (hex)
	Spent   bool
	Pending bool
}

func (g gameEntry) key() string { return fmt.Sprintf("%s:%d", g.TxID, g.Vout) }

// expectedGames lists what the staking (class=ClassStaking) or binding history of role
// must contain: every deposit of the best chain exactly once, plus pending deposits.
func (w *World) expectedGames(role string, class int, l *Ledger) map[string]gameEntry {
	m := map[string]gameEntry{}
	for _, c := range l.ByOrder {
		if c.Owner == nil || c.Owner.Wallet != role || c.Class != class {
			continue
		}
		e := gameEntry{TxID: c.OP.Hash.String(), Vout: c.OP.Index, Height: c.Height, Amount: c.Value, Frozen: c.Frozen, Spent: c.SpentAt != 0}
		if class == ClassStaking {
			e.Addr = c.Owner.Staking
		} else {
			e.Addr = c.Owner.Std
			e.Target = hex.EncodeToString(c.Target)
		}
		m[e.key()] = e
	}
	for _, h := range w.Pend.Order {
		tx := w.Pend.Txs[h]
		for i, o := range tx.TxOut {
			cl, hash, frozen, target := Classify(o.PkScript)
			if cl != class || hash == nil {
				continue
			}
			ow := w.owner[hex.EncodeToString(hash)]
			if ow == nil || ow.Wallet != role {
				continue
			}
			e := gameEntry{TxID: h.String(), Vout: uint32(i), Amount: o.Value, Frozen: frozen, Pending: true}
			if class == ClassStaking {
				e.Addr = ow.Staking
			} else {
				e.Addr = ow.Std
				e.Target = hex.EncodeToString(target)
			}
			m[e.key()] = e
		}
	}
	return m
}

// CheckGames is the C10 oracle in a quiescent state.
func (w *World) CheckGames() []string {
	var d []string
	l := w.Ledger()
	for _, role := range w.ReadyRoles() {
		if _, err := w.I.W.UseWallet(w.Wallets[role].ID); err != nil {
			d = append(d, role+": UseWallet: "+err.Error())
			continue
		}
		// staking
		sh, err := w.I.W.GetStakingHistory(false)
		if err != nil {
			d = append(d, role+": GetStakingHistory: "+err.Error())
			continue
		}
		want := w.expectedGames(role, ClassStaking, l)
		seen := map[string]bool{}
		for _, x := range sh {
			g := gameEntry{TxID: x.TxHash.String(), Vout: x.Index, Height: x.BlockHeight, Amount: x.Utxo.Amount.IntValue(),
				Frozen: uint64(x.Utxo.FrozenPeriod), Addr: x.Utxo.Address, Spent: x.Utxo.Spent, Pending: x.BlockHeight == 0}
			if seen[g.key()] {
				d = append(d, fmt.Sprintf("%s: staking history lists %s twice", role, g.key()))
			}
			seen[g.key()] = true
			e, ok := want[g.key()]
			if !ok {
				d = append(d, fmt.Sprintf("%s: staking history lists %s (%+v) which is no deposit of the best chain / pending set", role, g.key(), g))
				continue
			}
			if g != e {
				d = append(d, fmt.Sprintf("%s: staking history %s = %+v want %+v", role, g.key(), g, e))
			}
			if x.Utxo.Hash != x.TxHash || x.Utxo.Index != x.Index {
				d = append(d, fmt.Sprintf("%s: staking history %s: inner outpoint differs", role, g.key()))
			}
		}
		for k, e := range want {
			if !seen[k] {
				d = append(d, fmt.Sprintf("%s: staking history misses deposit %s (%+v)", role, k, e))
			}
		}
		// excludeWithdrawn view
		sh2, err := w.I.W.GetStakingHistory(true)
		if err == nil {
			n := 0
			for _, e := range want {
				if !e.Spent {
					n++
				}
			}
			if len(sh2) != n {
				d = append(d, fmt.Sprintf("%s: staking history (exclude withdrawn) has %d entries, want %d", role, len(sh2), n))
			}
		}
		// binding
		bh, err := w.I.W.GetBindingHistory(false)
		if err != nil {
			d = append(d, role+": GetBindingHistory: "+err.Error())
			continue
		}
		want = w.expectedGames(role, ClassBinding, l)
		seen = map[string]bool{}
		for _, x := range bh {
			g := gameEntry{TxID: x.TxHash.String(), Vout: x.Index, Height: x.BlockHeight, Amount: x.Utxo.Amount.IntValue(),
				Spent: x.Utxo.Spent, Pending: x.BlockHeight == 0}
			if x.Utxo.Holder != nil {
				g.Addr = x.Utxo.Holder.EncodeAddress()
			}
			if x.Utxo.BindingTarget != nil {
				g.Target = hex.EncodeToString(x.Utxo.BindingTarget.ScriptAddress())
			}
			if seen[g.key()] {
				d = append(d, fmt.Sprintf("%s: binding history lists %s twice", role, g.key()))
			}
			seen[g.key()] = true
			e, ok := want[g.key()]
			if !ok {
				d = append(d, fmt.Sprintf("%s: binding history lists %s (%+v) which is no deposit of the best chain / pending set", role, g.key(), g))
				continue
			}
			if g != e {
				d = append(d, fmt.Sprintf("%s: binding history %s = %+v want %+v", role, g.key(), g, e))
			}
		}
		for k, e := range want {
			if !seen[k] {
				d = append(d, fmt.Sprintf("%s: binding history misses deposit %s (%+v)", role, k, e))
			}
		}
	}
	// withdrawal transactions built by the wallet for every withdrawable deposit of A
	w.I.W.UseWallet(w.Wallets["A"].ID)
	A := w.Wallets["A"]
	for _, c := range l.Unspent(OwnedBy("A")) {
		if c.Class == ClassStd || c.Value == 0 || len(w.Pend.Spenders(c.OP)) > 0 {
			continue
		}
		can := w.NextSpendable(c, l)
		amt, _ := massutil.NewAmountFromInt(c.Value - Mass/100)
		for _, lockTime := range []uint64{0, 1, l.Height + 2} {
			hexs, _, err := w.I.W.CreateRawTransaction([]*masswallet.TxIn{{TxId: c.OP.Hash.String(), Vout: c.OP.Index}},
				map[string]massutil.Amount{A.Addrs[0].Std: amt}, lockTime, "", nil)
			if err != nil {
				d = append(d, fmt.Sprintf("A: CreateRawTransaction for deposit %v failed: %v", c.OP, err))
				continue
			}
			b, _ := hex.DecodeString(hexs)
			var tx wire.MsgTx
			if err := tx.SetBytes(b, wire.Packet); err != nil || len(tx.TxIn) != 1 {
				d = append(d, fmt.Sprintf("A: withdrawal for %v is undecodable / has %d inputs", c.OP, len(tx.TxIn)))
				continue
			}
			w.I.W.ClearUsedUTXOMark(&tx)
			wantSeq := SpendSequence(c, forks.EnforceMASSIP0002WarmUp, consensus.MASSIP0002BindingLockedPeriod)
			// consensus prescribes the sequence of staking and new-style binding withdrawals; other
			// inputs carry "final" (or final-1 to let a lock time take effect)
			if wantSeq == wire.MaxTxInSequenceNum && lockTime != 0 && tx.TxIn[0].Sequence == wire.MaxTxInSequenceNum-1 {
				wantSeq = tx.TxIn[0].Sequence
			}
			if tx.TxIn[0].Sequence != wantSeq {
				d = append(d, fmt.Sprintf("A: withdrawal of %v (class %d, height %d, lock_time %d) carries sequence %d, consensus requires %d", c.OP, c.Class, c.Height, lockTime, tx.TxIn[0].Sequence, wantSeq))
				continue
			}
			if tx.LockTime != lockTime {
				d = append(d, fmt.Sprintf("A: withdrawal of %v asked with lock_time %d carries lock_time %d", c.OP, lockTime, tx.LockTime))
			}
			// the built transaction must pass the consensus lock check for the next block exactly
			// when the reference says the deposit is withdrawable
			store := blockchain.TxStore{c.OP.Hash: &blockchain.TxData{Tx: massutil.NewTx(c.Tx), Hash: &c.OP.Hash, BlockHeight: c.Height, Spent: make([]bool, len(c.Tx.TxOut))}}
			lock, err := oracle().CalcSequenceLock(massutil.NewTx(&tx), store)
			active := err == nil && blockchain.SequenceLockActive(lock, l.Height+1, time.Unix(1<<40, 0))
			if active != can {
				d = append(d, fmt.Sprintf("A: withdrawal of %v (lock_time %d): consensus lock active=%v for next block but reference withdrawable=%v", c.OP, lockTime, active, can))
			}
		}
	}
	sort.Strings(d)
	return d
}

var _ = config.ChainParams
