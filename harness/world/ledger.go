package world

import (
	"encoding/binary"
	"encoding/hex"
	"fmt"
	"sort"

	"github.com/massnetorg/mass-core/blockchain"
	"github.com/massnetorg/mass-core/txscript"
	"github.com/massnetorg/mass-core/wire"
	"vh/simnode"
)

// Class of an output as the consensus script library sees it.
const (
	ClassStd = iota
	ClassStaking
	ClassBinding
	ClassOther
)

// Coin is one transaction output on the best chain, as the reference ledger sees it.
// Everything here is derived from the simulator's blocks with the consensus script
// library; no wallet code is involved.
type Coin struct {
	OP       wire.OutPoint
	Value    int64
	Height   uint64
	Coinbase bool
	Class    int
	Owner    *Addr // nil: not a wallet address known to the world
	Hash     []byte
	Frozen   uint64 // staking
	Target   []byte // binding
	Pk       []byte
	Tx       *wire.MsgTx
	SpentAt  uint64 // 0 = unspent on this chain
	SpentBy  wire.Hash
	Seq      int // creation order
}

// Ledger is the reference state of one chain tip.
type Ledger struct {
	Height  uint64
	Coins   map[wire.OutPoint]*Coin // every output ever created on this chain (spent ones keep SpentAt)
	ByOrder []*Coin
}

// Classify reads a pkScript with the consensus library.
func Classify(pk []byte) (class int, hash []byte, frozen uint64, target []byte) {
	c, pops := txscript.GetScriptInfo(pk)
	switch c {
	case txscript.WitnessV0ScriptHashTy:
		_, h, err := txscript.GetParsedOpcode(pops, c)
		if err != nil {
			return ClassOther, nil, 0, nil
		}
		return ClassStd, h[:], 0, nil
	case txscript.StakingScriptHashTy:
		f, h, err := txscript.GetParsedOpcode(pops, c)
		if err != nil {
			return ClassOther, nil, 0, nil
		}
		return ClassStaking, h[:], f, nil
	case txscript.BindingScriptHashTy:
		h, t, err := txscript.GetParsedBindingOpcode(pops)
		if err != nil {
			return ClassOther, nil, 0, nil
		}
		return ClassBinding, h, 0, t
	}
	return ClassOther, nil, 0, nil
}

// ComputeLedger folds the best chain into a ledger.
func (w *World) ComputeLedger(best []*simnode.Block) *Ledger {
	l := &Ledger{Coins: map[wire.OutPoint]*Coin{}}
	for _, b := range best {
		w.applyBlock(l, b)
	}
	return l
}

func (w *World) applyBlock(l *Ledger, b *simnode.Block) {
	l.Height = b.Height
	for _, tx := range b.Msg.Transactions {
		w.applyTx(l, tx, b.Height)
	}
}

func (w *World) applyTx(l *Ledger, tx *wire.MsgTx, height uint64) {
	h := tx.TxHash()
	cb := blockchain.IsCoinBaseTx(tx)
	if !cb {
		for _, in := range tx.TxIn {
			if c := l.Coins[in.PreviousOutPoint]; c != nil && c.SpentAt == 0 {
				c.SpentAt = height
				c.SpentBy = h
			}
		}
	}
	for i, out := range tx.TxOut {
		c := &Coin{OP: wire.OutPoint{Hash: h, Index: uint32(i)}, Value: out.Value, Height: height,
			Coinbase: cb, Pk: out.PkScript, Tx: tx, Seq: len(l.ByOrder)}
		c.Class, c.Hash, c.Frozen, c.Target = Classify(out.PkScript)
		if c.Hash != nil {
			c.Owner = w.owner[hex.EncodeToString(c.Hash)]
		}
		l.Coins[c.OP] = c
		l.ByOrder = append(l.ByOrder, c)
	}
}

// Ledger returns the reference ledger of the simulator's current best chain (cached by tip;
// a plain extension of the cached tip is applied incrementally).
func (w *World) Ledger() *Ledger {
	tipB := w.N.Tip()
	tip := tipB.Hash
	if w.ledTip == tip && w.led != nil {
		return w.led
	}
	if w.led != nil && tipB.Parent != nil && tipB.Parent.Hash == w.ledTip {
		w.applyBlock(w.led, tipB)
		w.ledTip = tip
		return w.led
	}
	w.led = w.ComputeLedger(w.N.Best)
	w.ledTip = tip
	return w.led
}

// Unspent lists unspent coins in creation order, filtered.
func (l *Ledger) Unspent(f func(*Coin) bool) []*Coin {
	var r []*Coin
	for _, c := range l.ByOrder {
		if c.SpentAt == 0 && (f == nil || f(c)) {
			r = append(r, c)
		}
	}
	return r
}

// OwnedBy filters coins of one wallet role.
func OwnedBy(role string) func(*Coin) bool {
	return func(c *Coin) bool { return c.Owner != nil && c.Owner.Wallet == role }
}

// SpendSequence is the input sequence consensus expects when spending c.
func SpendSequence(c *Coin, warm func(uint64) bool, bindingLock uint64) uint64 {
	switch c.Class {
	case ClassStaking:
		return c.Frozen + 1
	case ClassBinding:
		if warm(c.Height) {
			return bindingLock
		}
	}
	return wire.MaxTxInSequenceNum
}

func frozenBytes(f uint64) []byte {
	b := make([]byte, 8)
	binary.LittleEndian.PutUint64(b, f)
	return b
}

// sortCoins orders coins by (height, txid, index) for canonical output.
func sortCoins(cs []*Coin) {
	sort.Slice(cs, func(i, j int) bool {
		if cs[i].Height != cs[j].Height {
			return cs[i].Height < cs[j].Height
		}
		a, b := cs[i].OP.Hash.String(), cs[j].OP.Hash.String()
		if a != b {
			return a < b
		}
		return cs[i].OP.Index < cs[j].OP.Index
	})
}

// CheckChain is a simulator self-check: on the best chain every non-coinbase transaction
// spends only outputs that exist and are unspent at that point, no output is negative and
// no transaction creates value. A failure is a harness error, never a wallet defect.
func (w *World) CheckChain() error {
	l := &Ledger{Coins: map[wire.OutPoint]*Coin{}}
	for _, b := range w.N.Best {
		for ti, tx := range b.Msg.Transactions {
			var in, outv int64
			if !blockchain.IsCoinBaseTx(tx) {
				if ti == 0 {
					return fmt.Errorf("block %d: first tx is not a coinbase", b.Height)
				}
				for _, i := range tx.TxIn {
					c := l.Coins[i.PreviousOutPoint]
					if c == nil || c.SpentAt != 0 {
						return fmt.Errorf("block %d tx %v spends missing/spent %v", b.Height, tx.TxHash(), i.PreviousOutPoint)
					}
					in += c.Value
				}
			}
			for _, o := range tx.TxOut {
				if o.Value < 0 {
					return fmt.Errorf("block %d tx %v has negative output", b.Height, tx.TxHash())
				}
				outv += o.Value
			}
			if !blockchain.IsCoinBaseTx(tx) && outv > in {
				return fmt.Errorf("block %d tx %v creates value (%d > %d)", b.Height, tx.TxHash(), outv, in)
			}
			w.applyTx(l, tx, b.Height)
		}
	}
	return nil
}
