package world

import (
	"fmt"
	"strconv"
	"strings"

	"github.com/massnetorg/mass-core/blockchain"
	"github.com/massnetorg/mass-core/consensus"
	"github.com/massnetorg/mass-core/consensus/forks"
	"github.com/massnetorg/mass-core/txscript"
	"github.com/massnetorg/mass-core/wire"
	"massnet.org/mass-wallet/masswallet"
	"vh/env"
	"vh/simnode"
)

// Block templates (payload of the extend event), simplest first.
var BlockTemplates = []string{"e", "ca", "pa", "pp", "sa", "sj", "ch", "ab", "st", "sw", "bo", "bw", "nd", "bn"}

// Reorg branch patterns.
var ReorgPatterns = []string{"E", "R", "D", "P"}

// spend builds an (unsigned) transaction spending coins to outs; the wallet never
// verifies scripts of chain transactions.
func spend(coins []*Coin, outs ...*wire.TxOut) *wire.MsgTx {
	tx := wire.NewMsgTx()
	tx.Version = wire.TxVersion
	for _, c := range coins {
		in := wire.NewTxIn(&c.OP, nil)
		in.Sequence = SpendSequence(c, forks.EnforceMASSIP0002WarmUp, consensus.MASSIP0002BindingLockedPeriod)
		tx.AddTxIn(in)
	}
	for _, o := range outs {
		tx.AddTxOut(o)
	}
	return tx
}

func out(v int64, pk []byte) *wire.TxOut { return &wire.TxOut{Value: v, PkScript: pk} }

func stakingPk(hash []byte, frozen uint64) []byte {
	pk, err := txscript.NewScriptBuilder().AddOp(txscript.OP_0).AddData(hash).AddData(frozenBytes(frozen)).Script()
	env.Must(err, "stakingPk")
	return pk
}

func bindingPk(hash, target []byte) []byte {
	pk, err := txscript.PayToBindingScriptHashScript(hash, target)
	env.Must(err, "bindingPk")
	return pk
}

func nullDataPk() []byte {
	pk, err := txscript.NewScriptBuilder().AddOp(txscript.OP_RETURN).AddData([]byte("verif")).Script()
	env.Must(err, "nullDataPk")
	return pk
}

// strangerCoin returns the oldest unspent stranger coin the next block may spend.
func (w *World) strangerCoin(l *Ledger, skip map[wire.OutPoint]bool) *Coin {
	for _, c := range l.ByOrder {
		if c.SpentAt == 0 && c.Owner == nil && c.Class == ClassStd && string(c.Hash) == string(w.SHash) &&
			!skip[c.OP] && !w.relayedSpends(c.OP) && w.NextSpendable(c, l) {
			return c
		}
	}
	return nil
}

// s3Coin returns the oldest unspent coin of the third stranger script (one output of every
// stranger coinbase) that the next block may spend.
func (w *World) s3Coin(l *Ledger) *Coin {
	for _, c := range l.ByOrder {
		if c.SpentAt == 0 && c.Owner == nil && c.Class == ClassStd && string(c.Hash) == string(w.S3Hash) &&
			!w.relayedSpends(c.OP) && w.NextSpendable(c, l) {
			return c
		}
	}
	return nil
}

// walletCoin returns role's oldest unspent coin of class that the next block may spend.
func (w *World) walletCoin(l *Ledger, role string, class int, skip map[wire.OutPoint]bool) *Coin {
	for _, c := range l.ByOrder {
		if c.SpentAt == 0 && c.Owner != nil && c.Owner.Wallet == role && c.Class == class && c.Value > 0 &&
			!skip[c.OP] && !w.relayedSpends(c.OP) && w.NextSpendable(c, l) {
			return c
		}
	}
	return nil
}

// Content returns the transactions (coinbase first) of a block following template t on
// the chain whose ledger is l, or ok=false if the template is not enabled there.
func (w *World) Content(t string, l *Ledger) (txs []*wire.MsgTx, ok bool) {
	h := l.Height + 1
	A := w.Wallets["A"]
	B := w.Wallets["B"]
	cb := w.strangerCoinbase(h)
	s := func() *Coin { return w.strangerCoin(l, nil) }
	switch t {
	case "e":
		return []*wire.MsgTx{cb}, true
	case "ca":
		return []*wire.MsgTx{w.N.CoinbaseTx(h, A.Addrs[0].Pk, 7*Mass)}, true
	case "pa":
		c := s()
		if c == nil {
			return nil, false
		}
		return []*wire.MsgTx{cb, spend([]*Coin{c}, out(3*Mass, A.Addrs[1].Pk), out(c.Value-3*Mass-fee, w.SPk))}, true
	case "pp":
		// one transaction paying the SAME address twice (different values): two credits that
		// share transaction, script and address
		c := s()
		if c == nil {
			return nil, false
		}
		return []*wire.MsgTx{cb, spend([]*Coin{c}, out(2*Mass+3, A.Addrs[0].Pk), out(c.Value-3*Mass-8-fee, w.SPk), out(Mass+5, A.Addrs[0].Pk))}, true
	case "sa":
		c := w.walletCoin(l, "A", ClassStd, nil)
		if c == nil {
			return nil, false
		}
		if c.Value < 2*Mass {
			return []*wire.MsgTx{cb, spend([]*Coin{c}, out(c.Value-fee, w.SPk))}, true
		}
		return []*wire.MsgTx{cb, spend([]*Coin{c}, out(Mass, w.SPk), out(c.Value-Mass-fee, A.Addrs[0].Pk))}, true
	case "sj":
		// jointly funded spend: a foreign input FIRST, A's coin second, A's change as the third
		// output - so that the wallet's input and output indexes differ from their positions among
		// the wallet-relevant inputs/outputs. The foreign coin comes from a script (S3) that only
		// this template spends, so no other template can double-spend it.
		c := w.walletCoin(l, "A", ClassStd, nil)
		f := w.s3Coin(l)
		if c == nil || f == nil {
			return nil, false
		}
		if c.Value < 2*Mass {
			return []*wire.MsgTx{cb, spend([]*Coin{f, c}, out(f.Value-fee, w.S3Pk), out(c.Value, w.SPk))}, true
		}
		return []*wire.MsgTx{cb, spend([]*Coin{f, c}, out(f.Value-fee, w.S3Pk), out(Mass, w.SPk), out(c.Value-Mass, A.Addrs[0].Pk))}, true
	case "ch":
		c := s()
		if c == nil || B == nil {
			return nil, false
		}
		t1 := spend([]*Coin{c}, out(4*Mass, A.Addrs[1].Pk), out(c.Value-4*Mass-fee, w.SPk))
		h1 := t1.TxHash()
		c1 := &Coin{OP: wire.OutPoint{Hash: h1, Index: 0}, Value: 4 * Mass, Class: ClassStd}
		t2 := spend([]*Coin{c1}, out(4*Mass-fee, B.Addrs[0].Pk))
		return []*wire.MsgTx{cb, t1, t2}, true
	case "a2b": // A spends its oldest coin entirely to B (a transaction that spends one wallet and pays only the other)
		c := w.walletCoin(l, "A", ClassStd, nil)
		if c == nil || B == nil {
			return nil, false
		}
		return []*wire.MsgTx{cb, spend([]*Coin{c}, out(c.Value-fee, B.Addrs[0].Pk))}, true
	case "ab":
		c := s()
		if c == nil || B == nil {
			return nil, false
		}
		return []*wire.MsgTx{cb, spend([]*Coin{c}, out(2*Mass, A.Addrs[0].Pk), out(2*Mass+1, B.Addrs[0].Pk), out(c.Value-4*Mass-1-fee, w.SPk))}, true
	case "st":
		c := s()
		if c == nil {
			return nil, false
		}
		return []*wire.MsgTx{cb, spend([]*Coin{c}, out(c.Value-5*Mass-fee, w.SPk), out(5*Mass, stakingPk(A.Addrs[0].Hash, consensus.MinFrozenPeriod)))}, true // deposit is output 1
	case "sw":
		c := w.walletCoin(l, "A", ClassStaking, nil)
		if c == nil {
			return nil, false
		}
		return []*wire.MsgTx{cb, spend([]*Coin{c}, out(c.Value-fee, A.Addrs[0].Pk))}, true
	case "bo", "bn":
		c := s()
		if c == nil {
			return nil, false
		}
		warm := forks.EnforceMASSIP0002WarmUp(h)
		if (t == "bn") != warm { // consensus: 20-byte targets before the warm-up height, 22-byte after
			return nil, false
		}
		target := fixedHash(0x61)[:20]
		if t == "bn" {
			target = append(fixedHash(0x62)[:20], 0, 32) // plot hash, type 0 (MASS), bit length 32
		}
		return []*wire.MsgTx{cb, spend([]*Coin{c}, out(c.Value-6*Mass-fee, w.SPk), out(6*Mass, bindingPk(A.Addrs[1].Hash, target)))}, true // deposit is output 1
	case "bw":
		c := w.walletCoin(l, "A", ClassBinding, nil)
		if c == nil {
			return nil, false
		}
		return []*wire.MsgTx{cb, spend([]*Coin{c}, out(c.Value-fee, A.Addrs[1].Pk))}, true
	case "nd":
		c := s()
		if c == nil {
			return nil, false
		}
		return []*wire.MsgTx{cb, spend([]*Coin{c}, out(Mass, A.Addrs[0].Pk), out(0, nullDataPk()), out(c.Value-Mass-fee, w.SPk))}, true
	}
	return nil, false
}

// relevant reports whether tx has an input or output owned by a wallet role, on ledger l.
func (w *World) relevant(tx *wire.MsgTx, l *Ledger) bool {
	for _, in := range tx.TxIn {
		if c := l.Coins[in.PreviousOutPoint]; c != nil && w.live(c.Owner) {
			return true
		}
	}
	for _, o := range tx.TxOut {
		if _, h, _, _ := Classify(o.PkScript); h != nil && w.live(w.owner[fmt.Sprintf("%x", h)]) {
			return true
		}
	}
	return false
}

// reorgGens returns the block generators of a k-deep reorg with the given pattern, or
// ok=false if the pattern is not enabled (or would duplicate pattern E).
func (w *World) reorgGens(k int, pat string) (gens []func(*simnode.Block) []*wire.MsgTx, ok bool) {
	n := w.N
	if k < 1 || uint64(k) >= n.Height() || int(n.Height())-k < w.prefixLen() {
		return nil, false
	}
	old := n.Best[len(n.Best)-k:]
	oldLed := w.Ledger()
	var oldTxs []*wire.MsgTx
	for _, b := range old {
		for _, tx := range b.Msg.Transactions {
			if !blockchain.IsCoinBaseTx(tx) {
				oldTxs = append(oldTxs, tx)
			}
		}
	}
	empty := func(p *simnode.Block) []*wire.MsgTx { return []*wire.MsgTx{w.strangerCoinbase(p.Height + 1)} }
	for i := 0; i < k+1; i++ {
		gens = append(gens, empty)
	}
	switch pat {
	case "E":
		return gens, true
	case "R":
		if len(oldTxs) == 0 {
			return nil, false
		}
		gens[0] = func(p *simnode.Block) []*wire.MsgTx {
			l := w.Ledger()
			txs := []*wire.MsgTx{w.strangerCoinbase(p.Height + 1)}
			made := map[wire.Hash]bool{}
			for _, tx := range oldTxs {
				valid := true
				for _, in := range tx.TxIn {
					c := l.Coins[in.PreviousOutPoint]
					if !(c != nil && c.SpentAt == 0) && !made[in.PreviousOutPoint.Hash] {
						valid = false
					}
				}
				for _, o := range tx.TxOut {
					if cl, _, _, target := Classify(o.PkScript); cl == ClassBinding && (len(target) == 22) != forks.EnforceMASSIP0002WarmUp(p.Height+1) {
						valid = false
					}
				}
				if valid {
					txs = append(txs, tx)
					made[tx.TxHash()] = true
				}
			}
			return txs
		}
		return gens, true
	case "D":
		var victim *wire.MsgTx
		for _, tx := range oldTxs {
			if w.relevant(tx, oldLed) {
				victim = tx
				break
			}
		}
		if victim == nil {
			return nil, false
		}
		gens[0] = func(p *simnode.Block) []*wire.MsgTx {
			l := w.Ledger()
			txs := []*wire.MsgTx{w.strangerCoinbase(p.Height + 1)}
			var coins []*Coin
			var sum int64
			for _, in := range victim.TxIn {
				c := l.Coins[in.PreviousOutPoint]
				if c == nil || c.SpentAt != 0 {
					return txs // inputs do not exist on the new branch: nothing to double-spend
				}
				coins = append(coins, c)
				sum += c.Value
			}
			return append(txs, spend(coins, out(sum-2*fee, w.S2Pk)))
		}
		return gens, true
	case "P":
		gens[0] = func(p *simnode.Block) []*wire.MsgTx {
			l := w.Ledger()
			txs := []*wire.MsgTx{w.strangerCoinbase(p.Height + 1)}
			c := w.strangerCoin(l, nil)
			if c == nil {
				return txs
			}
			return append(txs, spend([]*Coin{c}, out(3*Mass+7, w.Wallets["A"].Addrs[1].Pk), out(c.Value-3*Mass-7-fee, w.SPk)))
		}
		gens[1] = func(p *simnode.Block) []*wire.MsgTx {
			txs := []*wire.MsgTx{w.strangerCoinbase(p.Height + 1)}
			for _, tx := range p.Msg.Transactions {
				if len(tx.TxOut) > 0 && tx.TxOut[0].Value == 3*Mass+7 {
					c := &Coin{OP: wire.OutPoint{Hash: tx.TxHash(), Index: 0}, Value: 3*Mass + 7, Class: ClassStd}
					txs = append(txs, spend([]*Coin{c}, out(Mass, w.SPk), out(2*Mass+7-fee, w.Wallets["A"].Addrs[0].Pk)))
				}
			}
			return txs
		}
		return gens, true
	}
	return nil, false
}

func (w *World) prefixLen() int {
	if w.Opt.Prefix != 0 {
		return w.Opt.Prefix
	}
	return int(w.Opt.Cons.CoinbaseMaturity)
}

// Apply executes one event. enabled=false means the event is not enabled in this state
// (nothing happened).
func (w *World) Apply(ev string) (enabled bool, err error) {
	w.statusCache = nil
	defer func() { w.statusCache = nil }()
	p := strings.Split(ev, ".")
	switch p[0] {
	case "d":
		if len(w.N.Queue) == 0 {
			return false, nil
		}
		return true, w.Deliver()
	case "i", "k", "z", "n":
		return w.ApplyTask(ev)
	case "b":
		// b.<n>: heights per rescan batch from here on (hook variable read through the source
		// overlay; without the overlay this has no effect)
		n, _ := strconv.Atoi(p[1])
		if n <= 0 {
			n = 1000
		}
		masswallet.VerifImportBatch = uint64(n)
		return true, nil
	case "y":
		if len(w.N.Queue) != 0 {
			return false, nil // relays are only explored on a caught-up wallet (DESIGN §5 C09)
		}
		tx, ok := w.RelayContent(p[1], w.Ledger())
		if !ok {
			return false, nil
		}
		w.Relayed = append(w.Relayed, tx)
		w.RelayedKind = append(w.RelayedKind, p[1])
		w.N.Relay(tx)
		// delivered at once: whether a lagging wallet takes notice of a relay is an
		// implementation choice C09 does not constrain ("known" transactions only)
		return true, w.Deliver()
	case "x":
		txs, ok := w.Content(p[1], w.Ledger())
		if !ok {
			txs, ok = w.PendingBlockContent(p[1], w.Ledger())
		}
		if !ok {
			txs, ok = w.CContent(p[1], w.Ledger())
		}
		if !ok && (p[1] == "pv" || p[1] == "pm" || p[1] == "p2" || p[1] == "px") && len(p) >= 4 {
			txs, ok = w.ParamContent(p, w.Ledger())
		}
		if !ok {
			return false, nil
		}
		_, err := w.N.Extend(txs)
		return true, err
	case "xn":
		// xn.<n>: the node mines n empty blocks while nobody listens (the wallet process is
		// not running): the notifications are lost, the blocks are only in the chain database
		n, _ := strconv.Atoi(p[1])
		for i := 0; i < n; i++ {
			if _, err := w.N.Extend([]*wire.MsgTx{w.strangerCoinbase(w.N.Height() + 1)}); err != nil {
				return true, err
			}
			w.N.Pop()
		}
		return true, nil
	case "r":
		k, _ := strconv.Atoi(p[1])
		gens, ok := w.reorgGens(k, p[2])
		if !ok {
			return false, nil
		}
		var rolled []*wire.MsgTx
		for _, b := range w.N.Best[len(w.N.Best)-k:] {
			for _, tx := range b.Msg.Transactions {
				if !blockchain.IsCoinBaseTx(tx) {
					rolled = append(rolled, tx)
				}
			}
		}
		_, err := w.N.Reorg(k, gens)
		// like a real node, the simulator keeps the transactions of disconnected blocks in
		// its pool: later templates do not double-spend them by accident and "cp" can re-mine them
		l := w.Ledger()
		for _, tx := range rolled {
			if !w.onChain(tx, l) {
				w.Relayed = append(w.Relayed, tx)
				w.RelayedKind = append(w.RelayedKind, "rb")
			}
		}
		return true, err
	}
	return false, fmt.Errorf("unknown event %q", ev)
}

// PrefixLen is the number of stranger-funding blocks below the explored region.
func (w *World) PrefixLen() int { return w.prefixLen() }

// ReorgEnabled tells whether a reorg event ("r.k.pat") is enabled, without changing w.
func (w *World) ReorgEnabled(ev string) bool {
	p := strings.Split(ev, ".")
	k, _ := strconv.Atoi(p[1])
	_, ok := w.reorgGens(k, p[2])
	return ok
}

// ParamContent builds parametrised payments: "x.pv.<amount>.<addr>[.<role>]" pays <amount>
// maxwell to address <addr> of wallet role (default A); "x.pm.<n>.<amount>" pays n outputs of
// <amount> to A.a0 in ONE transaction (many small coins).
func (w *World) ParamContent(p []string, l *Ledger) ([]*wire.MsgTx, bool) {
	c := w.strangerCoin(l, nil)
	if c == nil {
		return nil, false
	}
	cb := w.strangerCoinbase(l.Height + 1)
	switch p[1] {
	case "pv":
		amt, _ := strconv.ParseInt(p[2], 10, 64)
		ai, _ := strconv.Atoi(p[3])
		role := "A"
		if len(p) > 4 {
			role = p[4]
		}
		wl := w.Wallets[role]
		if wl == nil || ai >= len(wl.Addrs) || amt <= 0 || amt >= c.Value-fee {
			return nil, false
		}
		return []*wire.MsgTx{cb, spend([]*Coin{c}, out(amt, wl.Addrs[ai].Pk), out(c.Value-amt-fee, w.SPk))}, true
	case "p2":
		// x.p2.<amt1>.<addr1>.<amt2>.<addr2>: ONE transaction with two outputs to wallet A
		// (different addresses / values), so that later spends take two inputs from one tx
		if len(p) < 6 {
			return nil, false
		}
		a1, _ := strconv.ParseInt(p[2], 10, 64)
		i1, _ := strconv.Atoi(p[3])
		a2, _ := strconv.ParseInt(p[4], 10, 64)
		i2, _ := strconv.Atoi(p[5])
		wl := w.Wallets["A"]
		if i1 >= len(wl.Addrs) || i2 >= len(wl.Addrs) || a1 <= 0 || a2 <= 0 || a1+a2 >= c.Value-fee {
			return nil, false
		}
		return []*wire.MsgTx{cb, spend([]*Coin{c}, out(a1, wl.Addrs[i1].Pk), out(a2, wl.Addrs[i2].Pk), out(c.Value-a1-a2-fee, w.SPk))}, true
	case "px":
		// x.px.0.0: ONE transaction whose outputs to wallet A come in the order: one large coin,
		// 648 tiny ones, ten medium ones (the unspent index keeps the outputs of a transaction
		// in output order): more coins than the input cap, the valuable ones at both ends
		var outs []*wire.TxOut
		pk := w.Wallets["A"].Addrs[0].Pk
		outs = append(outs, out(4*Mass, pk))
		for i := 0; i < 648; i++ {
			outs = append(outs, out(10000, pk))
		}
		for i := 0; i < 10; i++ {
			outs = append(outs, out(Mass/2, pk))
		}
		total := 4*Mass + 648*10000 + 5*Mass
		if total >= c.Value-fee {
			return nil, false
		}
		outs = append(outs, out(c.Value-total-fee, w.SPk))
		return []*wire.MsgTx{cb, spend([]*Coin{c}, outs...)}, true
	case "pm":
		n, _ := strconv.Atoi(p[2])
		amt, _ := strconv.ParseInt(p[3], 10, 64)
		if n <= 0 || amt <= 0 || int64(n)*amt >= c.Value-fee {
			return nil, false
		}
		var outs []*wire.TxOut
		for i := 0; i < n; i++ {
			outs = append(outs, out(amt, w.Wallets["A"].Addrs[0].Pk))
		}
		outs = append(outs, out(c.Value-int64(n)*amt-fee, w.SPk))
		return []*wire.MsgTx{cb, spend([]*Coin{c}, outs...)}, true
	}
	return nil, false
}

// OddBindingEvents hands the follower an UNCONFIRMED transaction whose output is a
// binding-template script paying wallet A's first address with a 22-byte target of an
// unknown type - a shape the script library classifies as a binding output but cannot turn
// into an address. Consensus and mempool policy reject such a target
// (poc.ProofType.EnsureBitLength), so no node mines it: it is delivered as a relayed
// transaction only, as a stress input for C16/C19's "never panics whatever the script"; a
// block containing it is NOT delivered (the follower refusing such a block would not be a
// defect). The reference pending model is bypassed: no ledger oracle runs in these states.
func (w *World) OddBindingEvents() error {
	l := w.Ledger()
	c := w.strangerCoin(l, nil)
	if c == nil {
		return fmt.Errorf("no stranger coin")
	}
	A := w.Wallets["A"]
	target := append(fixedHash(0x63)[:20], 7, 99) // type 7, size 99: neither known nor in range
	tx := spend([]*Coin{c}, out(4*Mass+9, bindingPk(A.Addrs[0].Hash, target)), out(c.Value-4*Mass-9-fee, w.SPk))
	if err := w.I.W.VerifProcessTx(tx); err != nil {
		w.HandlerErrs = append(w.HandlerErrs, "odd binding relay: "+err.Error())
	}
	return nil
}
