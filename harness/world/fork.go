package world

import (
	"fmt"
	"io"

	"github.com/massnetorg/mass-core/wire"
	"github.com/syndtr/goleveldb/leveldb/storage"
	mwdb "massnet.org/mass-wallet/masswallet/db"
	"vh/env"
	"vh/inst"
	"vh/simnode"
)

// Base is a world frozen at the start of a scheduler scenario: the node (whose chain no
// explored thread changes - the node thread only announces tips that are already in the
// chain database), a copy of the closed wallet database and the reference structures.
// Every execution of the scenario runs on a Fork: a fresh wallet manager opened, the way
// loader.openWallet opens it at process start, over a private copy of that database. This is
// what the start of a wallet process looks like (NtfnsHandler.Start is only ever called on a
// manager that was just constructed), and it saves rebuilding wallets and chain per execution.
type Base struct {
	w     *World
	store storage.Storage
	queue []simnode.Notif
}

// Freeze closes the world's wallet database and turns the world into a Base. The world
// must not be used afterwards except through Fork.
func (w *World) Freeze() (*Base, error) {
	if w.I.Store.Mem == nil {
		return nil, fmt.Errorf("freeze: in-memory wallet stores only")
	}
	if w.I.Raw != nil {
		w.I.CloseRaw()
		w.I.Raw = nil
	}
	return &Base{w: w, store: w.I.Store.Mem, queue: append([]simnode.Notif{}, w.N.Queue...)}, nil
}

// cloneStorage copies every file and the meta pointer of a closed goleveldb storage.
func cloneStorage(src storage.Storage) (storage.Storage, error) {
	dst := storage.NewMemStorage()
	fds, err := src.List(storage.TypeAll)
	if err != nil {
		return nil, err
	}
	for _, fd := range fds {
		r, err := src.Open(fd)
		if err != nil {
			return nil, err
		}
		wr, err := dst.Create(fd)
		if err != nil {
			r.Close()
			return nil, err
		}
		_, err = io.Copy(wr, r)
		r.Close()
		wr.Close()
		if err != nil {
			return nil, err
		}
	}
	if m, err := src.GetMeta(); err == nil {
		if err := dst.SetMeta(m); err != nil {
			return nil, err
		}
	}
	return dst, nil
}

// Fork returns a world for one execution: shared node (notification queue reset to the
// frozen one), private copy of the wallet database opened by a fresh manager, private copies
// of the mutable reference structures. wrap may interpose a db seam (nil: none).
func (b *Base) Fork(wrap func(mwdb.DB) mwdb.DB) (*World, error) {
	st, err := cloneStorage(b.store)
	if err != nil {
		return nil, fmt.Errorf("fork: %v", err)
	}
	o := b.w
	w := &World{}
	*w = *o
	w.SharedNode = true
	w.Opt.Wrap = wrap
	w.N.Queue = append([]simnode.Notif{}, b.queue...)
	w.Wallets = map[string]*Wallet{}
	for r, wl := range o.Wallets {
		c := *wl
		c.Addrs = append([]*Addr{}, wl.Addrs...)
		w.Wallets[r] = &c
	}
	w.owner = map[string]*Addr{}
	for k, a := range o.owner {
		w.owner[k] = a
	}
	p := *o.Pend
	p.Txs = map[wire.Hash]*wire.MsgTx{}
	for h, tx := range o.Pend.Txs {
		p.Txs[h] = tx
	}
	p.Order = append([]wire.Hash{}, o.Pend.Order...)
	if o.Pend.Invisible != nil {
		p.Invisible = map[wire.Hash]bool{}
		for h, v := range o.Pend.Invisible {
			p.Invisible[h] = v
		}
	}
	w.Pend = &p
	w.led = nil
	w.statusCache = nil
	w.CUsedAtImport = map[uint32]bool{}
	for k, v := range o.CUsedAtImport {
		w.CUsedAtImport[k] = v
	}
	w.Relayed = append([]*wire.MsgTx{}, o.Relayed...)
	w.RelayedKind = append([]string{}, o.RelayedKind...)
	w.HandlerErrs, w.Panics = nil, nil
	// every execution starts from the same point of the deterministic randomness stream
	env.SeedRand("fork:" + o.Opt.SeedName)
	i, err := inst.OpenAt(&inst.Store{Mem: st}, w.N, w.Opt.Gap, inst.PubPass, wrap)
	if err != nil {
		return nil, fmt.Errorf("fork: %v", err)
	}
	w.I = i
	return w, nil
}
