package world

import (
	"encoding/hex"
	"fmt"
	"sort"

	"github.com/massnetorg/mass-core/blockchain"
	"github.com/massnetorg/mass-core/consensus"
	"github.com/massnetorg/mass-core/consensus/forks"
	"github.com/massnetorg/mass-core/massutil"
	"github.com/massnetorg/mass-core/wire"
	"massnet.org/mass-wallet/config"
	mwdb "massnet.org/mass-wallet/masswallet/db"
	"massnet.org/mass-wallet/masswallet/txmgr"
	"vh/simnode"
)

// Relay templates (payload of the relay event), simplest first.
var RelayTemplates = []string{"sp", "in", "ch", "cf", "dup", "s2"}

// PendingRef is the reference model of the wallet's pending set. It is driven by the same
// notifications the wallet receives (DESIGN §5 C09):
//
//	pending = relayed ∧ relevant ∧ inputs known
//	          − confirmed − (conflicts of confirmed on wallet-owned inputs, recursively descendants)
//	          + (non-coinbase wallet transactions of rolled-back blocks not re-mined)
//	          − (spenders of rolled-back coinbase outputs, recursively)
type PendingRef struct {
	Txs   map[wire.Hash]*wire.MsgTx
	Order []wire.Hash
	Tip   *simnode.Block // the tip the wallet has processed, as the reference sees it
	// Invisible marks pending transactions removed because a confirmed transaction
	// double-spent an input the wallet does NOT own (it never sees that transaction).
	Invisible map[wire.Hash]bool
}

func (p *PendingRef) add(tx *wire.MsgTx) {
	h := tx.TxHash()
	if _, ok := p.Txs[h]; ok {
		return
	}
	p.Txs[h] = tx
	p.Order = append(p.Order, h)
}

func (p *PendingRef) remove(h wire.Hash) {
	if _, ok := p.Txs[h]; !ok {
		return
	}
	delete(p.Txs, h)
	for i, x := range p.Order {
		if x == h {
			p.Order = append(p.Order[:i], p.Order[i+1:]...)
			break
		}
	}
}

// removeWithDescendants drops h and every pending transaction spending one of its outputs.
func (p *PendingRef) removeWithDescendants(h wire.Hash) {
	if _, ok := p.Txs[h]; !ok {
		return
	}
	p.remove(h)
	for _, o := range append([]wire.Hash{}, p.Order...) {
		tx := p.Txs[o]
		if tx == nil {
			continue
		}
		for _, in := range tx.TxIn {
			if in.PreviousOutPoint.Hash == h {
				p.removeWithDescendants(o)
				break
			}
		}
	}
}

// Spenders returns the pending transactions spending op.
func (p *PendingRef) Spenders(op wire.OutPoint) []wire.Hash {
	var r []wire.Hash
	for _, h := range p.Order {
		for _, in := range p.Txs[h].TxIn {
			if in.PreviousOutPoint == op {
				r = append(r, h)
			}
		}
	}
	return r
}

// chainTo returns the chain from genesis to b.
func chainTo(b *simnode.Block) []*simnode.Block {
	var c []*simnode.Block
	for x := b; x != nil; x = x.Parent {
		c = append(c, x)
	}
	for i, j := 0, len(c)-1; i < j; i, j = i+1, j-1 {
		c[i], c[j] = c[j], c[i]
	}
	return c
}

// ownedInput reports whether op is an output owned by a wallet role on ledger l, or an
// output of a pending transaction paying a wallet address.
func (w *World) ownedOutpoint(op wire.OutPoint, l *Ledger) bool {
	if c := l.Coins[op]; c != nil {
		return w.live(c.Owner)
	}
	if w.Pend != nil {
		if tx := w.Pend.Txs[op.Hash]; tx != nil && int(op.Index) < len(tx.TxOut) {
			_, h, _, _ := Classify(tx.TxOut[op.Index].PkScript)
			return h != nil && w.live(w.owner[fmt.Sprintf("%x", h)])
		}
	}
	return false
}

func (w *World) relevantP(tx *wire.MsgTx, l *Ledger) bool {
	for _, in := range tx.TxIn {
		if w.ownedOutpoint(in.PreviousOutPoint, l) {
			return true
		}
	}
	for _, o := range tx.TxOut {
		if _, h, _, _ := Classify(o.PkScript); h != nil && w.live(w.owner[fmt.Sprintf("%x", h)]) {
			return true
		}
	}
	return false
}

// live reports whether an address belongs to a wallet the follower currently serves
// (present and ready: importing or removing wallets are skipped by the relevance filter).
func (w *World) live(a *Addr) bool {
	if a == nil {
		return false
	}
	if w.statusCache == nil {
		w.statusCache = map[string]string{}
	}
	st, ok := w.statusCache[a.Wallet]
	if !ok {
		st = w.TaskStatus(a.Wallet)
		w.statusCache[a.Wallet] = st
	}
	return st == "ready"
}

// refDeliverTx updates the reference when a relayed transaction is delivered.
func (w *World) refDeliverTx(tx *wire.MsgTx) {
	p := w.Pend
	if p.Tip.Hash != w.N.Tip().Hash {
		return // wallet is behind: proccessReceivedTx ignores relays unless (nearly) synced
	}
	l := w.Ledger()
	if !w.relevantP(tx, l) {
		return
	}
	h := tx.TxHash()
	for _, c := range l.ByOrder {
		if c.OP.Hash == h {
			return // already confirmed
		}
	}
	for _, in := range tx.TxIn {
		if l.Coins[in.PreviousOutPoint] == nil && p.Txs[in.PreviousOutPoint.Hash] == nil {
			return // input transaction unknown: the wallet refuses it
		}
	}
	p.add(tx)
}

// refDeliverBlock updates the reference when a tip notification is delivered.
func (w *World) refDeliverBlock(b *wire.MsgBlock) {
	p := w.Pend
	nb := w.N.All[b.BlockHash()]
	if nb == nil || int(nb.Height) >= len(w.N.Best) || w.N.Best[nb.Height].Hash != nb.Hash {
		return // stale tip: the wallet cannot apply it
	}
	if len(p.Txs) == 0 && nb.Parent != nil && nb.Parent.Hash == p.Tip.Hash {
		// plain extension with nothing pending: coinbases never enter the pending set and
		// there is nothing to confirm or conflict with
		p.Tip = nb
		return
	}
	oldChain, newChain := chainTo(p.Tip), chainTo(nb)
	f := 0
	for f < len(oldChain) && f < len(newChain) && oldChain[f].Hash == newChain[f].Hash {
		f++
	}
	oldLed := w.ComputeLedger(oldChain)
	var removedCB []wire.Hash
	for i := len(oldChain) - 1; i >= f; i-- {
		txs := oldChain[i].Msg.Transactions
		for j := len(txs) - 1; j >= 0; j-- {
			tx := txs[j]
			if blockchain.IsCoinBaseTx(tx) {
				removedCB = append(removedCB, tx.TxHash())
				continue
			}
			// "known": C09 speaks of transactions the wallet knows. A wallet that was still
			// importing when the block arrived, and whose rescan ran after the node had already
			// left that branch, never recorded the transaction and cannot un-confirm it.
			if w.relevant(tx, oldLed) && w.walletKnowsMined(tx) {
				p.add(tx)
			}
		}
	}
	for _, cb := range removedCB {
		for _, o := range append([]wire.Hash{}, p.Order...) {
			tx := p.Txs[o]
			if tx == nil {
				continue
			}
			for _, in := range tx.TxIn {
				if in.PreviousOutPoint.Hash == cb {
					p.removeWithDescendants(o)
					break
				}
			}
		}
	}
	led := w.ComputeLedger(newChain[:f])
	for i := f; i < len(newChain); i++ {
		for _, tx := range newChain[i].Msg.Transactions {
			h := tx.TxHash()
			p.remove(h)
			if !blockchain.IsCoinBaseTx(tx) {
				for _, in := range tx.TxIn {
					c := led.Coins[in.PreviousOutPoint]
					for _, s := range p.Spenders(in.PreviousOutPoint) {
						if c == nil || !w.live(c.Owner) {
							w.markInvisible(s)
						}
						p.removeWithDescendants(s)
					}
				}
			}
		}
		w.applyBlock(led, newChain[i])
	}
	p.Tip = nb
}

// walletKnowsMined tells whether the wallet database holds any record keyed by tx's hash
// (called BEFORE the reorganising notification is handed to the wallet): transaction
// records, credits and debits all carry the hash in their keys.
func (w *World) walletKnowsMined(tx *wire.MsgTx) bool {
	h := tx.TxHash()
	for _, kv := range w.RawDump() {
		if bytesContains(kv.K, h[:]) {
			return true
		}
	}
	return false
}

// WalletPending reads the wallet's pending buckets through the store read API.
func (w *World) WalletPending() (*txmgr.VerifPending, error) {
	var p *txmgr.VerifPending
	err := mwdb.View(w.I.W.VerifDB(), func(tx mwdb.ReadTransaction) (err error) {
		p, err = w.I.W.VerifTxStore().VerifPending(tx)
		return err
	})
	return p, err
}

// effSpent tells whether op is spent by a pending transaction, counting also the
// transactions the wallet still holds only because of the recorded known finding
// (conflict confirmed on a foreign input): the first divergence is reported once as
// "wallet keeps X"; its derived effects (flag, selection) are judged consistently.
func (w *World) effSpent(op wire.OutPoint, wp *txmgr.VerifPending) bool {
	if len(w.Pend.Spenders(op)) > 0 {
		return true
	}
	for _, h := range wp.Inputs[op] {
		if w.Pend.Invisible[h] {
			return true
		}
	}
	return false
}

// CheckPending is the C09 oracle in a quiescent state (the reference tip equals the best tip).
func (w *World) CheckPending() []string {
	var d []string
	l := w.Ledger()
	wp, err := w.WalletPending()
	if err != nil {
		return []string{"pending dump failed: " + err.Error()}
	}
	got := map[wire.Hash]bool{}
	for _, h := range wp.Txs {
		got[h] = true
	}
	var names []string
	for h := range w.Pend.Txs {
		names = append(names, h.String())
		if !got[h] {
			d = append(d, fmt.Sprintf("pending transaction %v is missing from the wallet's pending set", h))
		}
	}
	sort.Strings(names)
	for h := range got {
		if w.Pend.Txs[h] == nil {
			d = append(d, fmt.Sprintf("wallet keeps %v in its pending set although it is confirmed, conflicted or was never accepted", h))
		}
	}
	// read back: every pending entry must decode to the original transaction
	for h, tx := range w.Pend.Txs {
		if !got[h] {
			continue
		}
		hh := h
		back, err := w.I.W.VerifExistsUnminedTx(&hh)
		if err != nil {
			d = append(d, fmt.Sprintf("pending transaction %v cannot be read back: %v", h, err))
		} else if back.TxHash() != tx.TxHash() {
			d = append(d, fmt.Sprintf("pending transaction %v reads back as %v", h, back.TxHash()))
		}
	}
	// spent-by-unconfirmed flag of every wallet coin
	for _, role := range w.ReadyRoles() {
		o := w.ObserveWallet(role)
		if o.Err != "" {
			d = append(d, role+": "+o.Err)
			continue
		}
		for _, u := range o.Utxos {
			h, _ := wire.NewHashFromStr(u.TxID)
			op := wire.OutPoint{Hash: *h, Index: u.Vout}
			want := w.effSpent(op, wp)
			if u.SBU != want {
				d = append(d, fmt.Sprintf("%s: GetUtxo %s:%d spent_by_unmined=%v, reference pending set says %v", role, u.TxID, u.Vout, u.SBU, want))
			}
		}
	}
	w.I.W.UseWallet(w.Wallets["A"].ID)
	_ = l
	sort.Strings(d)
	return d
}

func (w *World) markInvisible(h wire.Hash) {
	p := w.Pend
	if p.Invisible == nil {
		p.Invisible = map[wire.Hash]bool{}
	}
	p.Invisible[h] = true
	for _, o := range p.Order {
		for _, in := range p.Txs[o].TxIn {
			if in.PreviousOutPoint.Hash == h && !p.Invisible[o] {
				w.markInvisible(o)
			}
		}
	}
}

// ---- relay events ----

func (w *World) relayedSpends(op wire.OutPoint) bool {
	// also transactions that fell back into the pending set when their block was rolled
	// back: templates must not double-spend them by accident (patterns D/cc/ci do it on purpose)
	if w.Pend != nil && len(w.Pend.Spenders(op)) > 0 {
		return true
	}
	for _, tx := range w.Relayed {
		for _, in := range tx.TxIn {
			if in.PreviousOutPoint == op {
				return true
			}
		}
	}
	return false
}

func (w *World) lastRelayed(kind string) *wire.MsgTx {
	for i := len(w.Relayed) - 1; i >= 0; i-- {
		if kindIs(w.RelayedKind[i], kind) {
			return w.Relayed[i]
		}
	}
	return nil
}

// kindIs: the two-input wallet spend "s2" counts as a wallet spend "sp" for the templates
// that build on one (child, conflict, confirmed conflict).
func kindIs(have, want string) bool {
	return have == want || (want == "sp" && have == "s2")
}

func (w *World) firstRelayed(kind string) *wire.MsgTx {
	for i := range w.Relayed {
		if kindIs(w.RelayedKind[i], kind) {
			return w.Relayed[i]
		}
	}
	return nil
}

// onChain reports whether tx is mined on the current best chain.
func (w *World) onChain(tx *wire.MsgTx, l *Ledger) bool {
	_, ok := l.Coins[wire.OutPoint{Hash: tx.TxHash(), Index: 0}]
	return ok
}

// ReannounceRelayed hands every transaction of the node's pool that is still valid (relayed
// earlier, or taken back from a disconnected block - mass-core's TxPool.SyncDetachBlock accepts
// those again and notifies its listeners; not mined; every input unspent on the best chain or
// created by a transaction announced before it) to the follower again, parents before children,
// as the node and its peers re-announcing them would. Returns how many were handed over.
func (w *World) ReannounceRelayed() int {
	l := w.Ledger()
	n := 0
	announced := map[wire.Hash]bool{}
	for pass := 0; pass < 3; pass++ {
		for _, tx := range w.Relayed {
			h := tx.TxHash()
			if announced[h] || w.onChain(tx, l) {
				continue
			}
			valid := true
			for _, in := range tx.TxIn {
				if c := l.Coins[in.PreviousOutPoint]; c != nil {
					if c.SpentAt != 0 {
						valid = false
					}
				} else if !announced[in.PreviousOutPoint.Hash] {
					valid = false
				}
			}
			if !valid {
				continue
			}
			announced[h] = true
			w.refDeliverTx(tx) // the reference hears the announcement as well
			if err := w.I.W.VerifProcessTx(tx); err != nil {
				w.HandlerErrs = append(w.HandlerErrs, "re-announced tx: "+err.Error())
			}
			n++
		}
	}
	return n
}

// RelayContent builds the transaction of relay template t, or ok=false.
func (w *World) RelayContent(t string, l *Ledger) (*wire.MsgTx, bool) {
	A := w.Wallets["A"]
	switch t {
	case "sp":
		for _, c := range l.ByOrder {
			if c.SpentAt == 0 && c.Owner != nil && c.Owner.Wallet == "A" && c.Class == ClassStd && c.Value > 2*Mass &&
				!w.relayedSpends(c.OP) && w.NextSpendable(c, l) {
				return spend([]*Coin{c}, out(Mass+3, w.SPk), out(c.Value-Mass-3-fee, A.Addrs[0].Pk)), true
			}
		}
	case "s2":
		// a wallet spend with TWO wallet inputs: a conflict confirmed on the first one must
		// free the second one again
		var two []*Coin
		for _, c := range l.ByOrder {
			if c.SpentAt == 0 && c.Owner != nil && c.Owner.Wallet == "A" && c.Class == ClassStd && c.Value > Mass &&
				!w.relayedSpends(c.OP) && w.NextSpendable(c, l) {
				two = append(two, c)
				if len(two) == 2 {
					return spend(two, out(Mass+5, w.SPk), out(two[0].Value+two[1].Value-Mass-5-fee, A.Addrs[0].Pk)), true
				}
			}
		}
	case "in":
		for _, c := range l.ByOrder {
			if c.SpentAt == 0 && c.Owner == nil && c.Class == ClassStd && string(c.Hash) == string(w.SHash) &&
				!w.relayedSpends(c.OP) && w.NextSpendable(c, l) {
				return spend([]*Coin{c}, out(2*Mass+11, A.Addrs[1].Pk), out(c.Value-2*Mass-11-fee, w.SPk)), true
			}
		}
	case "ch":
		p := w.lastRelayed("sp")
		if p == nil || w.onChain(p, l) || w.Pend.Txs[p.TxHash()] == nil {
			return nil, false
		}
		op := wire.OutPoint{Hash: p.TxHash(), Index: 1}
		if w.relayedSpends(op) {
			return nil, false
		}
		c := &Coin{OP: op, Value: p.TxOut[1].Value, Class: ClassStd}
		return spend([]*Coin{c}, out(c.Value-fee, w.SPk)), true
	case "cf":
		p := w.firstRelayed("sp")
		if p == nil {
			// no single-input spend was relayed: conflict with the FIRST input of the two-input
			// spend, which leaves its second input to be contested separately (block "c2")
			p = w.firstRelayed("s2")
		}
		if p == nil || w.onChain(p, l) || w.lastRelayed("cf") != nil {
			return nil, false
		}
		c := l.Coins[p.TxIn[0].PreviousOutPoint]
		if c == nil || c.SpentAt != 0 {
			return nil, false
		}
		return spend([]*Coin{c}, out(c.Value-2*fee, w.S2Pk)), true
	case "st": // unconfirmed staking deposit to A
		for _, c := range l.ByOrder {
			if c.SpentAt == 0 && c.Owner == nil && c.Class == ClassStd && string(c.Hash) == string(w.SHash) &&
				!w.relayedSpends(c.OP) && w.NextSpendable(c, l) {
				return spend([]*Coin{c}, out(5*Mass+1, stakingPk(A.Addrs[0].Hash, consensus.MinFrozenPeriod+1)), out(c.Value-5*Mass-1-fee, w.SPk)), true
			}
		}
	case "bd": // unconfirmed binding deposit to A
		for _, c := range l.ByOrder {
			if c.SpentAt == 0 && c.Owner == nil && c.Class == ClassStd && string(c.Hash) == string(w.SHash) &&
				!w.relayedSpends(c.OP) && w.NextSpendable(c, l) {
				target := fixedHash(0x61)[:20]
				if forks.EnforceMASSIP0002WarmUp(l.Height + 1) {
					target = append(fixedHash(0x62)[:20], 0, 32)
				}
				return spend([]*Coin{c}, out(6*Mass+1, bindingPk(A.Addrs[1].Hash, target)), out(c.Value-6*Mass-1-fee, w.SPk)), true
			}
		}
	case "sb", "bb": // unconfirmed staking ("sb") / binding ("bb") deposit to wallet B
		B := w.Wallets["B"]
		if B == nil || len(B.Addrs) == 0 {
			return nil, false
		}
		for _, c := range l.ByOrder {
			if c.SpentAt == 0 && c.Owner == nil && c.Class == ClassStd && string(c.Hash) == string(w.SHash) &&
				!w.relayedSpends(c.OP) && w.NextSpendable(c, l) {
				if t == "sb" {
					return spend([]*Coin{c}, out(5*Mass+2, stakingPk(B.Addrs[0].Hash, consensus.MinFrozenPeriod+1)), out(c.Value-5*Mass-2-fee, w.SPk)), true
				}
				target := fixedHash(0x64)[:20]
				if forks.EnforceMASSIP0002WarmUp(l.Height + 1) {
					target = append(fixedHash(0x65)[:20], 0, 32)
				}
				return spend([]*Coin{c}, out(6*Mass+2, bindingPk(B.Addrs[0].Hash, target)), out(c.Value-6*Mass-2-fee, w.SPk)), true
			}
		}
	case "sw": // unconfirmed withdrawal of a staking/binding deposit
		for _, c := range l.ByOrder {
			if c.SpentAt == 0 && c.Owner != nil && c.Owner.Wallet == "A" && c.Class != ClassStd && !w.relayedSpends(c.OP) && w.NextSpendable(c, l) {
				return spend([]*Coin{c}, out(c.Value-fee, A.Addrs[0].Pk)), true
			}
		}
	case "dup":
		if len(w.Relayed) == 0 || w.RelayedKind[len(w.Relayed)-1] == "dup" || w.RelayedKind[len(w.Relayed)-1] == "rb" {
			return nil, false
		}
		last := w.Relayed[len(w.Relayed)-1]
		// a node relays a transaction again only while it is still valid: not mined, every
		// input unspent on the best chain or created by a transaction that is still pending
		if w.onChain(last, l) {
			return nil, false
		}
		for _, in := range last.TxIn {
			if c := l.Coins[in.PreviousOutPoint]; c != nil {
				if c.SpentAt != 0 {
					return nil, false
				}
			} else if _, pend := w.Pend.Txs[in.PreviousOutPoint.Hash]; !pend {
				return nil, false
			}
		}
		return last, true
	}
	return nil, false
}

// PendingBlockContent builds the block templates that settle pending transactions:
// cp = confirm every relayed transaction that is still valid, cc = confirm a conflict of
// the first relayed wallet spend, ci = confirm a stranger's double-spend of the input of
// the relayed incoming payment.
func (w *World) PendingBlockContent(t string, l *Ledger) ([]*wire.MsgTx, bool) {
	h := l.Height + 1
	txs := []*wire.MsgTx{w.strangerCoinbase(h)}
	switch t {
	case "cp":
		made := map[wire.Hash]bool{}
		used := map[wire.OutPoint]bool{}
		seen := map[wire.Hash]bool{}
		for _, tx := range w.Relayed {
			th := tx.TxHash()
			if seen[th] || w.onChain(tx, l) {
				continue
			}
			seen[th] = true
			ok := true
			for _, in := range tx.TxIn {
				c := l.Coins[in.PreviousOutPoint]
				if used[in.PreviousOutPoint] || !((c != nil && c.SpentAt == 0) || made[in.PreviousOutPoint.Hash]) {
					ok = false
				}
			}
			for _, o := range tx.TxOut {
				// consensus: 20-byte binding targets only before the warm-up height, 22-byte after
				if cl, _, _, target := Classify(o.PkScript); cl == ClassBinding && (len(target) == 22) != forks.EnforceMASSIP0002WarmUp(h) {
					ok = false
				}
			}
			if !ok {
				continue
			}
			for _, in := range tx.TxIn {
				used[in.PreviousOutPoint] = true
			}
			made[th] = true
			txs = append(txs, tx)
		}
		return txs, len(txs) > 1
	case "cc":
		p := w.firstRelayed("sp")
		if p == nil || w.onChain(p, l) {
			return nil, false
		}
		c := l.Coins[p.TxIn[0].PreviousOutPoint]
		if c == nil || c.SpentAt != 0 {
			return nil, false
		}
		return append(txs, spend([]*Coin{c}, out(c.Value-2*fee, w.S2Pk))), true
	case "c2":
		// confirm a conflict on the SECOND input of the relayed two-input wallet spend: that
		// spend is purged, while another pending spender of its first input (a relayed "cf")
		// stays pending and keeps that coin flagged
		p := w.firstRelayed("s2")
		if p == nil || w.onChain(p, l) || len(p.TxIn) < 2 {
			return nil, false
		}
		c := l.Coins[p.TxIn[1].PreviousOutPoint]
		if c == nil || c.SpentAt != 0 {
			return nil, false
		}
		return append(txs, spend([]*Coin{c}, out(c.Value-4*fee, w.S2Pk))), true
	case "ci":
		p := w.firstRelayed("in")
		if p == nil || w.onChain(p, l) {
			return nil, false
		}
		c := l.Coins[p.TxIn[0].PreviousOutPoint]
		if c == nil || c.SpentAt != 0 {
			return nil, false
		}
		return append(txs, spend([]*Coin{c}, out(c.Value-3*fee, w.S2Pk))), true
	}
	return nil, false
}

// CheckSelection probes automatic coin selection of wallet A against the reference pending
// set: a coin spent by a pending transaction must never be chosen (C09).
func (w *World) CheckSelection() []string {
	var d []string
	l := w.Ledger()
	if _, err := w.I.W.UseWallet(w.Wallets["A"].ID); err != nil {
		return []string{"UseWallet: " + err.Error()}
	}
	wp, err := w.WalletPending()
	if err != nil {
		return []string{"pending dump failed: " + err.Error()}
	}
	free := map[wire.OutPoint]int64{}
	var F, P int64
	for _, c := range l.Unspent(OwnedBy("A")) {
		if c.Class != ClassStd || c.Value == 0 || !w.NextSpendable(c, l) {
			continue
		}
		if w.effSpent(c.OP, wp) {
			P += c.Value
		} else {
			free[c.OP] = c.Value
			F += c.Value
		}
	}
	saddr, err := massutil.NewAddressWitnessScriptHash(w.SHash, config.ChainParams)
	if err != nil {
		return []string{err.Error()}
	}
	try := func(v int64) (*wire.MsgTx, error) {
		amt, err := massutil.NewAmountFromInt(v)
		if err != nil {
			return nil, err
		}
		hexs, _, err := w.I.W.AutoCreateRawTransaction(map[string]massutil.Amount{saddr.EncodeAddress(): amt}, 0, massutil.ZeroAmount(), "", "", nil)
		if err != nil {
			return nil, err
		}
		b, _ := hex.DecodeString(hexs)
		var tx wire.MsgTx
		if err := tx.SetBytes(b, wire.Packet); err != nil {
			return nil, fmt.Errorf("undecodable result: %v", err)
		}
		return &tx, nil
	}
	if P > 0 {
		tx, err := try(F + P/2)
		if err == nil {
			for _, in := range tx.TxIn {
				if _, ok := free[in.PreviousOutPoint]; !ok {
					d = append(d, fmt.Sprintf("automatic selection chose %v, which a pending transaction spends (asked for %d with only %d free)", in.PreviousOutPoint, F+P/2, F))
				}
			}
			if len(d) == 0 {
				d = append(d, fmt.Sprintf("creation succeeded for %d although only %d is free of pending spends", F+P/2, F))
			}
			w.I.W.ClearUsedUTXOMark(tx)
		}
	}
	if F > Mass/10 {
		tx, err := try(F / 2)
		if err != nil {
			d = append(d, fmt.Sprintf("creation of %d failed although %d is free and spendable: %v", F/2, F, err))
		} else {
			for _, in := range tx.TxIn {
				if _, ok := free[in.PreviousOutPoint]; !ok {
					d = append(d, fmt.Sprintf("automatic selection chose %v, which is not a free spendable coin of the wallet", in.PreviousOutPoint))
				}
			}
			w.I.W.ClearUsedUTXOMark(tx)
		}
	}
	return d
}

// PendingKnownTags classifies pending-set differences: if every difference is "the wallet
// keeps a transaction whose conflict was confirmed on an input the wallet does not own",
// the counterexample matches the known-finding pattern pending-conflict-on-foreign-input.
func (w *World) PendingKnownTags(diffs []string) []string {
	if len(diffs) == 0 || len(w.Pend.Invisible) == 0 {
		return nil
	}
	wp, err := w.WalletPending()
	if err != nil {
		return nil
	}
	for _, h := range wp.Txs {
		if w.Pend.Txs[h] == nil && !w.Pend.Invisible[h] {
			return nil
		}
	}
	for h := range w.Pend.Txs {
		found := false
		for _, x := range wp.Txs {
			if x == h {
				found = true
			}
		}
		if !found {
			return nil
		}
	}
	return []string{"pending-conflict-on-foreign-input"}
}

// RelayCount counts the transactions relayed by relay events (not those that fell back
// into the node's pool through a reorganisation).
func (w *World) RelayCount() int {
	n := 0
	for _, k := range w.RelayedKind {
		if k != "rb" {
			n++
		}
	}
	return n
}
