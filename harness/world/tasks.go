package world

import (
	"encoding/hex"
	"errors"
	"fmt"
	"github.com/massnetorg/mass-core/massutil"
	"massnet.org/mass-wallet/masswallet"
	"sort"

	"github.com/massnetorg/mass-core/wire"
	"massnet.org/mass-wallet/masswallet/keystore"
	"vh/enum"
)

// The external wallet C: its mnemonic is fixed, so its addresses are known to the
// simulator (through the independent derivation) before it is ever imported.
const (
	MnemonicC = "abandon abandon abandon abandon abandon abandon abandon abandon abandon abandon abandon about"
	PassC     = "privpassC3"
)

// CAddr returns the i-th address of wallet C from the independent derivation.
func (w *World) CAddr(i uint32) (*enum.RefAddr, error) {
	if w.refC == nil {
		// the reference key chain of C is a pure function of two constants: derived once per process
		if sharedRefC == nil {
			r, err := enum.NewRefWallet(MnemonicC, PassC)
			if err != nil {
				return nil, err
			}
			sharedRefC = r
		}
		w.refC = sharedRefC
	}
	return w.refC.Addr(i)
}

// PayC builds a block paying C's i-th address (template "pc<i>").
func (w *World) payCContent(i uint32, l *Ledger) ([]*wire.MsgTx, bool) {
	c := w.strangerCoin(l, nil)
	if c == nil {
		return nil, false
	}
	a, err := w.CAddr(i)
	if err != nil {
		return nil, false
	}
	cb := w.strangerCoinbase(l.Height + 1)
	return []*wire.MsgTx{cb, spend([]*Coin{c}, out(2*Mass+int64(i)+21, stdPk(a.Hash)), out(c.Value-2*Mass-int64(i)-21-fee, w.SPk))}, true
}

// ImportC calls ImportWalletWithMnemonic for wallet C (the API call only: the wallet is
// "importing" afterwards and a task is queued for the worker).
func (w *World) ImportC(hint uint32) error {
	w.I.W.VerifInitTaskChan()
	ws, err := w.I.W.ImportWalletWithMnemonic(&keystore.WalletParams{Mnemonic: MnemonicC, PrivatePassphrase: []byte(PassC), Remarks: "C",
		ExternalIndex: hint, AddressGapLimit: w.Opt.Gap})
	if err != nil {
		return err
	}
	w.ImportQueued = true
	w.CImportHint, w.CImportHeight = hint, w.N.Height()
	w.CUsedAtImport = w.cUsed()
	return w.registerC(ws.WalletID)
}

var sharedRefC *enum.RefWallet

const cSpan = 24

// cUsed lists the key-chain indexes of wallet C that have history on the current best chain.
func (w *World) cUsed() map[uint32]bool {
	used := map[uint32]bool{}
	l := w.Ledger()
	for i := uint32(0); i < cSpan; i++ {
		ra, err := w.CAddr(i)
		if err != nil {
			continue
		}
		for _, c := range l.ByOrder {
			if c.Hash != nil && string(c.Hash) == string(ra.Hash) {
				used[i] = true
				break
			}
		}
	}
	return used
}

// CheckRestoreC is the discovery oracle of a completed mnemonic import (C07): every address
// of the key chain that had best-chain history when the import was called and is reachable
// under the gap rule from the import's index hint must be held by the restored wallet. The
// key chain comes from the independent derivation, not from the instance.
func (w *World) CheckRestoreC() []string {
	wl := w.Wallets["C"]
	if wl == nil || w.TaskStatus("C") != "ready" {
		return nil
	}
	const span = cSpan
	// history that existed when the import was called AND is still on the best chain
	now := w.cUsed()
	used := map[uint32]bool{}
	var ref [span]*enum.RefAddr
	for i := uint32(0); i < span; i++ {
		ra, err := w.CAddr(i)
		if err != nil {
			return []string{"reference derivation: " + err.Error()}
		}
		ref[i] = ra
		used[i] = w.CUsedAtImport[i] && now[i]
	}
	held := map[string]bool{}
	addrs, err := w.I.W.VerifKeystoreManager().GetAddrs(wl.ID)
	if err != nil {
		return []string{"restored wallet: " + err.Error()}
	}
	for _, a := range addrs {
		held[a] = true
	}
	var d []string
	gap := w.Opt.Gap
	bound := w.CImportHint + gap
	for i := uint32(0); i < span && i < bound; i++ {
		if used[i] {
			bound = i + 1 + gap
			if !held[ref[i].Std] {
				d = append(d, fmt.Sprintf("restore (hint %d, gap %d) does not hold address index %d (%s), which had best-chain history at import time and lies within the gap rule", w.CImportHint, gap, i, ref[i].Std))
			}
		}
	}
	return d
}

func (w *World) registerC(id string) error {
	wl := w.Wallets["C"]
	if wl == nil {
		wl = &Wallet{Role: "C", ID: id, Pass: PassC, Mnemonic: MnemonicC}
		w.Wallets["C"] = wl
	}
	addrs, err := w.I.W.VerifKeystoreManager().GetAddrs(id)
	if err != nil {
		return err
	}
	sort.Strings(addrs)
	have := map[string]bool{}
	for _, a := range wl.Addrs {
		have[a.Std] = true
	}
	// register in key-chain order so that indexes are meaningful
	for i := uint32(0); int(i) < len(addrs)+2; i++ {
		ra, err := w.CAddr(i)
		if err != nil {
			return err
		}
		for _, a := range addrs {
			if a == ra.Std && !have[a] {
				if _, err := w.RegisterAddr(wl, a); err != nil {
					return err
				}
				have[a] = true
			}
		}
	}
	for _, a := range addrs {
		if !have[a] {
			if _, err := w.RegisterAddr(wl, a); err != nil {
				return err
			}
		}
	}
	w.led = nil // ownership changed: recompute the reference ledger
	return nil
}

// TaskStatus describes the persisted status of a wallet role ("", "ready", "importing", "removing").
func (w *World) TaskStatus(role string) string {
	wl := w.Wallets[role]
	if wl == nil {
		return ""
	}
	if w.Opt.HarnessDB != nil {
		w.Opt.HarnessDB(true)
		defer w.Opt.HarnessDB(false)
	}
	ws, err := w.I.W.Wallets()
	if err != nil {
		return "error: " + err.Error()
	}
	for _, s := range ws {
		if s.WalletID == wl.ID {
			switch {
			case s.Status.IsRemoved():
				return "removing"
			case s.Status.Ready():
				return "ready"
			default:
				return fmt.Sprintf("importing@%d", s.Status.SyncedHeight)
			}
		}
	}
	return "absent"
}

// ImportStep runs one rescan batch of wallet C, as the worker goroutine would.
func (w *World) ImportStep() (bool, error) {
	w.I.W.VerifDrainTasks()
	fin, err := w.I.W.VerifRunImportStep(w.Wallets["C"].ID)
	w.noteLeak(err)
	// worker(): the task is queued again unless the step reported "finished" (a step that
	// fails with "unexpected credit not found" is treated as finished, an aborted one is dropped)
	w.ImportQueued = !fin && !(err != nil && (err.Error() == "unexpected credit not found" || err == masswallet.ErrTaskAbort))
	return fin, err
}

// RemoveB calls RemoveWallet for wallet B (API call: marks the wallet and queues the task).
func (w *World) RemoveB(pass string) error {
	w.I.W.VerifInitTaskChan()
	return w.I.W.RemoveWallet(w.Wallets["B"].ID, pass)
}

// RemoveRun runs the removal of wallet B to completion, as the worker goroutine would.
func (w *World) RemoveRun() error {
	w.I.W.VerifDrainTasks()
	// the removal runs in the background while ANOTHER wallet is the one in use: that
	// selection must survive it ("every other wallet's ... ability to build and sign
	// transactions are unchanged")
	// (both situations occur in the explored space: at even chain heights the survivor is
	// selected first, at odd heights the selection is left as the history made it - typically
	// the wallet being removed, i.e. the survivor is NOT the selected one)
	selected := w.I.W.CurrentWallet()
	if A := w.Wallets["A"]; A != nil && !w.KeepSelection && w.N.Height()%2 == 0 && (selected == "" || selected == w.Wallets["B"].ID) {
		if _, uerr := w.I.W.UseWallet(A.ID); uerr == nil {
			selected = A.ID
		}
	}
	err := w.I.W.VerifRunRemove(w.Wallets["B"].ID)
	if err == nil && selected != "" && selected != w.Wallets["B"].ID {
		if now := w.I.W.CurrentWallet(); now != selected {
			w.RemovalSideEffects = append(w.RemovalSideEffects, fmt.Sprintf("wallet %s was in use when the removal of ANOTHER wallet completed; afterwards the wallet in use is %q", selected, now))
		}
	}
	w.noteLeak(err)
	w.statusCache = nil
	// worker() queues a failed removal again: CompleteTasks repeats it
	w.RemoveFailed = err != nil
	if err == nil && w.Pend != nil {
		// pending transactions that concerned only the removed wallet go with it
		l := w.Ledger()
		for _, h := range append([]wire.Hash{}, w.Pend.Order...) {
			if tx := w.Pend.Txs[h]; tx != nil && !w.relevantP(tx, l) {
				w.Pend.remove(h)
			}
		}
	}
	return err
}

var _ = hex.EncodeToString

// CContent builds the block templates that involve the external wallet C:
// pc<i> = pay C's i-th address, sc = spend C's oldest coin (to the stranger).
func (w *World) CContent(t string, l *Ledger) ([]*wire.MsgTx, bool) {
	if len(t) > 2 && t[:2] == "pc" {
		i := 0
		fmt.Sscan(t[2:], &i)
		return w.payCContent(uint32(i), l)
	}
	if t == "cch" {
		// in-block chain THROUGH the wallet to be restored: t1 pays C's address 0, t2 spends t1:0
		// and pays wallet A. A follower that does not know C yet records t2 (for A) only; the
		// later rescan adds t1 to the same block's record
		c := w.strangerCoin(l, nil)
		a0, err := w.CAddr(0)
		A := w.Wallets["A"]
		if c == nil || err != nil || A == nil || len(A.Addrs) < 2 {
			return nil, false
		}
		cb := w.strangerCoinbase(l.Height + 1)
		t1 := spend([]*Coin{c}, out(3*Mass+31, stdPk(a0.Hash)), out(c.Value-3*Mass-31-fee, w.SPk))
		c1 := &Coin{OP: wire.OutPoint{Hash: t1.TxHash(), Index: 0}, Value: 3*Mass + 31, Class: ClassStd}
		t2 := spend([]*Coin{c1}, out(3*Mass+31-fee, A.Addrs[1].Pk))
		return []*wire.MsgTx{cb, t1, t2}, true
	}
	if t == "sc" || t == "c2a" {
		// sc: C's oldest coin goes to the stranger; c2a: C pays wallet A (with change back to C's
		// address 0) - a transaction the node's ready wallet A records on its own, long before C
		// is restored here, and in which the restored wallet SPENDS
		for k := uint32(0); k < 6; k++ {
			a, err := w.CAddr(k)
			if err != nil {
				return nil, false
			}
			for _, c := range l.ByOrder {
				if c.SpentAt == 0 && string(c.Hash) == string(a.Hash) && c.Class == ClassStd && !w.relayedSpends(c.OP) {
					cb := w.strangerCoinbase(l.Height + 1)
					if t == "c2a" {
						A, a0 := w.Wallets["A"], (*enum.RefAddr)(nil)
						if a0, err = w.CAddr(0); err != nil || A == nil || len(A.Addrs) < 2 || c.Value < Mass {
							return nil, false
						}
						return []*wire.MsgTx{cb, spend([]*Coin{c}, out(c.Value/2, A.Addrs[1].Pk), out(c.Value-c.Value/2-fee, stdPk(a0.Hash)))}, true
					}
					return []*wire.MsgTx{cb, spend([]*Coin{c}, out(c.Value-fee, w.SPk))}, true
				}
			}
		}
	}
	return nil, false
}

// ReadyRoles lists the wallet roles that are present and ready (selectable).
func (w *World) ReadyRoles() []string {
	var r []string
	for _, role := range w.Roles() {
		if w.TaskStatus(role) == "ready" {
			r = append(r, role)
		}
	}
	return r
}

// ApplyTask executes the import/removal events of the C07/C08 alphabets.
func (w *World) ApplyTask(ev string) (bool, error) {
	switch ev {
	case "i.m0", "i.m1", "i.mB":
		if w.TaskStatus("C") != "" {
			return false, nil
		}
		hint := uint32(0)
		if ev == "i.m1" {
			hint = 3
		}
		if ev == "i.mB" {
			// directed histories only: an index hint that makes the import call write several
			// thousand records in ONE wallet-database transaction
			hint = 2100
		}
		return true, w.ImportC(hint)
	case "i.s":
		if st := w.TaskStatus("C"); len(st) < 9 || st[:9] != "importing" || !w.ImportQueued {
			return false, nil
		}
		_, err := w.ImportStep()
		if err != nil {
			w.HandlerErrs = append(w.HandlerErrs, "import step: "+err.Error())
		}
		return true, nil
	case "k.rm":
		if w.TaskStatus("B") != "ready" {
			return false, nil
		}
		return true, w.RemoveB(PassB)
	case "k.run":
		if w.TaskStatus("B") != "removing" {
			return false, nil
		}
		if err := w.RemoveRun(); err != nil {
			w.HandlerErrs = append(w.HandlerErrs, "removal: "+err.Error())
		}
		return true, nil
	case "k.im":
		if w.TaskStatus("B") != "absent" || w.BReimported {
			return false, nil
		}
		w.BReimported = true
		w.I.W.VerifInitTaskChan()
		if _, err := w.I.W.ImportWalletWithMnemonic(&keystore.WalletParams{Mnemonic: w.Wallets["B"].Mnemonic, PrivatePassphrase: []byte(PassB),
			Remarks: "B again", ExternalIndex: 0, AddressGapLimit: w.Opt.Gap}); err != nil {
			return true, fmt.Errorf("re-import of the removed wallet's mnemonic failed: %v", err)
		}
		return true, nil
	case "n.w":
		// CreateWallet of one more wallet ("D"): an API operation that writes several records
		if w.Wallets["D"] != nil {
			return false, nil
		}
		id, mn, _, err := w.I.W.CreateWallet("privpassD4", "D", 128)
		if err != nil {
			return true, err
		}
		w.Wallets["D"] = &Wallet{Role: "D", ID: id, Pass: "privpassD4", Mnemonic: mn}
		_, err = w.I.W.UseWallet(w.Wallets["A"].ID)
		return true, err
	case "n.a":
		// NewAddress for wallet A (C12's operation, here as a target of storage faults)
		if _, err := w.I.W.UseWallet(w.Wallets["A"].ID); err != nil {
			return true, err
		}
		w.NewAddrCalls++
		_, err := w.NewAddress("A")
		return true, err
	case "z":
		if err := w.Restart(); err != nil {
			return true, err
		}
		w.I.W.VerifInitTaskChan()
		// worker() queues every unready wallet again at start-up
		if st := w.TaskStatus("C"); len(st) >= 9 && st[:9] == "importing" {
			w.ImportQueued = true
		}
		return true, nil
	}
	return false, fmt.Errorf("unknown task event %q", ev)
}

// CheckTaskStates checks what must hold WHILE background work is pending.
func (w *World) CheckTaskStates() []string {
	var d []string
	if st := w.TaskStatus("C"); len(st) >= 9 && st[:9] == "importing" {
		if _, err := w.I.W.UseWallet(w.Wallets["C"].ID); err == nil {
			d = append(d, "task: an importing wallet can be selected (UseWallet succeeded while "+st+")")
			w.I.W.UseWallet(w.Wallets["A"].ID)
		}
		w.I.W.VerifInitTaskChan()
		if err := w.I.W.RemoveWallet(w.Wallets["C"].ID, PassC); err == nil {
			d = append(d, "task: removal of an importing wallet was accepted")
		}
	}
	if w.Wallets["B"] != nil && w.TaskStatus("B") == "ready" {
		w.I.W.VerifInitTaskChan()
		for _, wp := range []string{"", PassA, PassB + "x", PassB[:len(PassB)-1]} {
			if err := w.I.W.RemoveWallet(w.Wallets["B"].ID, wp); err == nil {
				d = append(d, fmt.Sprintf("task: RemoveWallet accepted the wrong passphrase %q", wp))
			}
		}
	}
	return d
}

// noteLeak records a background step that returned while the follower was still suspended:
// the real handle() goroutine would stay parked on sigResume for ever - no block is processed
// any more and Stop hangs (reported by every history check through Panics).
func (w *World) noteLeak(err error) {
	if err != nil && errors.Is(err, masswallet.ErrVerifFollowerLeftSuspended) {
		w.Panics = append(w.Panics, "background step left the follower suspended for good: "+err.Error())
	}
}

// CompleteTasks lets pending import/removal work run to completion, as the worker would.
func (w *World) CompleteTasks() error {
	for _, role := range []string{"C", "B"} {
		st := w.TaskStatus(role)
		if len(st) >= 9 && st[:9] == "importing" && (role != "C" || w.ImportQueued) {
			id := w.Wallets[role].ID
			for k := 0; ; k++ {
				if k > 40 {
					return fmt.Errorf("import of %s does not finish after 40 batches", role)
				}
				w.I.W.VerifDrainTasks()
				fin, err := w.I.W.VerifRunImportStep(id)
				w.noteLeak(err)
				if role == "C" {
					w.ImportQueued = !fin
				}
				if err != nil {
					w.HandlerErrs = append(w.HandlerErrs, "import step: "+err.Error())
					if k > 5 {
						return fmt.Errorf("import of %s keeps failing: %v", role, err)
					}
				}
				if fin {
					break
				}
				// the chain may have moved: the follower keeps delivering between batches
				for len(w.N.Queue) > 0 {
					if err := w.Deliver(); err != nil {
						return err
					}
					if len(w.Panics) > 0 {
						return fmt.Errorf("the follower died: %s", w.Panics[0])
					}
				}
			}
			if role == "B" {
				if err := w.reRegisterB(); err != nil {
					return err
				}
			}
		}
		if st == "removing" || (role == "B" && w.RemoveFailed) {
			if err := w.RemoveRun(); err != nil {
				return fmt.Errorf("removal does not complete: %v", err)
			}
		}
	}
	return nil
}

func (w *World) reRegisterB() error { return nil }

// CheckRemoved is the C08 residue oracle: once wallet B is gone, nothing keyed by it or by
// its addresses may remain anywhere in the raw database.
func (w *World) CheckRemoved() []string {
	if len(w.RemovalSideEffects) > 0 {
		return append([]string{}, w.RemovalSideEffects...)
	}
	B := w.Wallets["B"]
	if B == nil || w.TaskStatus("B") != "absent" {
		return nil
	}
	var d []string
	needles := map[string][]byte{"wallet id": []byte(B.ID)}
	for i, a := range B.Addrs {
		needles[fmt.Sprintf("script hash of address %d", i)] = a.Hash
		needles[fmt.Sprintf("address %d", i)] = []byte(a.Std)
		needles[fmt.Sprintf("staking address %d", i)] = []byte(a.Staking)
	}
	var names []string
	for n := range needles {
		names = append(names, n)
	}
	sort.Strings(names)
	for _, kv := range w.RawDump() {
		shared := false
		if len(kv.K) > len(unminedPrefix) && string(kv.K[:len(unminedPrefix)]) == string(unminedPrefix) && len(kv.V) > 8 {
			// a pending transaction that also pays/spends a surviving wallet must be kept, and
			// its serialised form naturally contains every output script, including B's
			var tx wire.MsgTx
			if err := tx.SetBytes(kv.V[8:], wire.DB); err == nil {
				for _, o := range tx.TxOut {
					if _, h, _, _ := Classify(o.PkScript); h != nil {
						if ow := w.owner[hex.EncodeToString(h)]; ow != nil && ow.Wallet != "B" {
							shared = true
						}
					}
				}
				for _, in := range tx.TxIn {
					prev := w.N.Txs[in.PreviousOutPoint.Hash]
					if prev == nil || int(in.PreviousOutPoint.Index) >= len(prev.TxOut) {
						continue
					}
					if _, h, _, _ := Classify(prev.TxOut[in.PreviousOutPoint.Index].PkScript); h != nil {
						if ow := w.owner[hex.EncodeToString(h)]; ow != nil && ow.Wallet != "B" {
							shared = true
						}
					}
				}
			}
		}
		for _, n := range names {
			nd := needles[n]
			if bytesContains(kv.K, nd) || (!shared && bytesContains(kv.V, nd)) {
				d = append(d, fmt.Sprintf("removed: database still holds the removed wallet's %s in record %q", n, printable(kv.K)))
			}
		}
	}
	if len(d) > 6 {
		d = append(d[:6], fmt.Sprintf("removed: ... %d residue records in total", len(d)))
	}
	ws, err := w.I.W.Wallets()
	if err == nil {
		for _, s := range ws {
			if s.WalletID == B.ID {
				d = append(d, "removed: Wallets() still lists the removed wallet")
			}
		}
	}
	return d
}

func bytesContains(h, n []byte) bool {
	if len(n) == 0 {
		return false
	}
	for i := 0; i+len(n) <= len(h); i++ {
		if string(h[i:i+len(n)]) == string(n) {
			return true
		}
	}
	return false
}

func printable(b []byte) string {
	if len(b) > 24 {
		return fmt.Sprintf("%q...(%d bytes)", b[:24], len(b))
	}
	return fmt.Sprintf("%q", b)
}

// UnknownWallets lists wallet ids the instance reports that the world does not know.
func (w *World) UnknownWallets() ([]string, error) {
	ws, err := w.I.W.Wallets()
	if err != nil {
		return nil, err
	}
	known := map[string]bool{}
	for _, wl := range w.Wallets {
		known[wl.ID] = true
	}
	var u []string
	for _, s := range ws {
		if !known[s.WalletID] {
			u = append(u, s.WalletID)
		}
	}
	return u, nil
}

// AdoptC registers wallet C if the instance holds it although the import call never
// returned to the harness (crash or injected fault inside the call). It reports whether an
// unknown wallet is C.
func (w *World) AdoptC(id string) (bool, error) {
	if _, err := w.CAddr(0); err != nil {
		return false, err
	}
	if w.refC.WalletID != id {
		return false, nil
	}
	return true, w.registerC(id)
}

// CheckAddressList compares wallet A's address listing with the addresses the harness was
// handed by successful NewAddress calls: same set, no duplicates.
func (w *World) CheckAddressList() []string {
	var d []string
	if _, err := w.I.W.UseWallet(w.Wallets["A"].ID); err != nil {
		return []string{"address list: UseWallet(A): " + err.Error()}
	}
	l, err := w.I.W.GetAddresses(massutil.AddressClassWitnessV0)
	if err != nil {
		return []string{"address list: " + err.Error()}
	}
	got := map[string]int{}
	for _, a := range l {
		got[a.Address]++
	}
	for a, n := range got {
		if n > 1 {
			d = append(d, fmt.Sprintf("address list: %s listed %d times", a, n))
		}
	}
	want := map[string]bool{}
	for _, a := range w.Wallets["A"].Addrs {
		want[a.Std] = true
		if got[a.Std] == 0 {
			d = append(d, fmt.Sprintf("address list: issued address %d (%s) is not listed", a.Idx, a.Std))
		}
	}
	for a := range got {
		if !want[a] {
			d = append(d, fmt.Sprintf("address list: %s is listed but no successful NewAddress call returned it (%d calls, %d addresses handed out)", a, w.NewAddrCalls, len(want)))
		}
	}
	sort.Strings(d)
	return d
}

// CheckTasksDone is evaluated after CompleteTasks: every wallet the instance holds must be
// ready (nothing is left importing or removing with nobody working on it).
func (w *World) CheckTasksDone() []string {
	var d []string
	for _, role := range w.Roles() {
		st := w.TaskStatus(role)
		if st != "ready" && st != "absent" && st != "" {
			d = append(d, fmt.Sprintf("task: wallet %s stays %q although the worker has no task left for it (queued=%v)", role, st, role == "C" && w.ImportQueued))
		}
	}
	return d
}
