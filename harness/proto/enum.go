package proto

import "fmt"

// Viol is one input on which the code under test disagrees with the reference.
type EnumViol struct {
	Input string   `json:"input"`
	Msg   string   `json:"msg"`
	Tags  []string `json:"tags,omitempty"`
}

// Out is the result of one shard of an enumeration.
type EnumOut struct {
	Evaluations int            `json:"evaluations"`
	Nontrivial  int            `json:"nontrivial"`
	Classes     map[string]int `json:"classes"`
	Viols       []EnumViol     `json:"viols"`
	ViolCount   int            `json:"viol_count"`
	Samples     []string       `json:"samples"`
	Families    map[string]int `json:"families"`
}

// Opts selects a shard and a tier.
type EnumOpts struct {
	Shard   int    `json:"shard"`
	NShards int    `json:"nshards"`
	Tier    string `json:"tier"`
}

// NewEnumOut allocates an EnumOut.
func NewEnumOut() *EnumOut {
	return &EnumOut{Classes: map[string]int{}, Families: map[string]int{}}
}

// Add records a violation (at most 40 are kept verbatim; all are counted).
func (o *EnumOut) Add(input, msg string, tags ...string) {
	o.ViolCount++
	if len(o.Viols) < 40 {
		o.Viols = append(o.Viols, EnumViol{Input: fmt.Sprintf("%q", input), Msg: msg, Tags: tags})
	}
}

// Sample keeps a few inputs verbatim.
func (o *EnumOut) Sample(s string) {
	if len(o.Samples) < 8 {
		o.Samples = append(o.Samples, fmt.Sprintf("%q", s))
	}
}
