package proto

import "fmt"

// Viol is one input on which the code under test disagrees with the reference.
type EnumViol struct {
	Input string   `json:"input"`
	Msg   string   `json:"msg"`
	Tags  []string `json:"tags,omitempty"`
}

// Out is the result of one shard of an enumeration.
type EnumOut struct {
	Evaluations int            `json:"evaluations"`
	Nontrivial  int            `json:"nontrivial"`
	Classes     map[string]int `json:"classes"`
	Viols       []EnumViol     `json:"viols"`
	ViolCount   int            `json:"viol_count"`
	Samples     []string       `json:"samples"`
	Families    map[string]int `json:"families"`
	perTag      map[string]int
}

// Opts selects a shard and a tier.
type EnumOpts struct {
	Shard   int    `json:"shard"`
	NShards int    `json:"nshards"`
	Tier    string `json:"tier"`
}

// NewEnumOut allocates an EnumOut.
func NewEnumOut() *EnumOut {
	return &EnumOut{Classes: map[string]int{}, Families: map[string]int{}}
}

// Add records a violation. All are counted; at most 10 per distinct tag list are kept
// verbatim, so that many counterexamples of one (possibly known) pattern can never crowd
// out a counterexample of another pattern.
func (o *EnumOut) Add(input, msg string, tags ...string) {
	o.ViolCount++
	if o.perTag == nil {
		o.perTag = map[string]int{}
	}
	k := fmt.Sprint(tags)
	o.perTag[k]++
	if o.perTag[k] <= 10 {
		o.Viols = append(o.Viols, EnumViol{Input: fmt.Sprintf("%q", input), Msg: msg, Tags: tags})
	}
}

// Sample keeps a few inputs verbatim.
func (o *EnumOut) Sample(s string) {
	if len(o.Samples) < 8 {
		o.Samples = append(o.Samples, fmt.Sprintf("%q", s))
	}
}
