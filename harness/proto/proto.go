// Package proto is the parent<->worker protocol of the explicit-state explorers.
package proto

// Task asks a worker to replay a history on a fresh instance.
type Task struct {
	ID   int      `json:"id"`
	Hist []string `json:"hist"`
}

// Result describes the state a history leads to.
type Result struct {
	ID        int            `json:"id"`
	Key       string         `json:"key"`            // canonical state key
	Succ      []string       `json:"succ"`           // enabled events in that state (within bounds)
	Viol      []string       `json:"viol,omitempty"` // property violations observed in that state
	KnownTags []string       `json:"known,omitempty"`
	Outcome   string         `json:"outcome"` // hash of the property-relevant observation
	Quiescent bool           `json:"quiescent"`
	Info      map[string]int `json:"info,omitempty"`
	Err       string         `json:"err,omitempty"` // harness error (never a violation)
	Detail    interface{}    `json:"detail,omitempty"`
}

// Model is one property's state-space definition, executed inside a worker process.
type Model interface {
	// Run replays hist on a fresh closed system and evaluates the oracle.
	Run(hist []string) *Result
}
