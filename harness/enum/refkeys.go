package enum

import (
	"crypto/sha256"
	"fmt"
	"massnet.org/mass-wallet/masswallet/keystore/wordlists"
	"math/big"
	"sync"

	"github.com/massnetorg/mass-core/massutil"
	"github.com/massnetorg/mass-core/massutil/bech32"
	"massnet.org/mass-wallet/config"
)

// RefWallet is the independent derivation of a wallet's identity and address chain from
// (mnemonic, private passphrase): BIP-39 seed -> BIP-32 m/44'/297'/1'/branch/index
// (reference implementations of this package) -> 1-of-1 multisig redeem script ->
// SHA-256 -> witness-v0 address.
type RefWallet struct {
	acct     *refKey
	ext      *refKey
	WalletID string
	// Affected: some private scalar on the hardened part of the path has leading zero
	// bytes, so the implementation's derivation is known to deviate (C14 finding).
	Affected bool
	path     map[string][]byte
	cache    map[[2]uint32]*RefAddr // derived addresses (pure function of branch and index)
}

// RefAddr is one derived address.
type RefAddr struct {
	Index   uint32
	Std     string
	Staking string
	Hash    []byte
	PubKey  []byte
	Priv    *big.Int
}

// NewRefWallet derives the account of a mnemonic.
func NewRefWallet(mnemonic, pass string) (*RefWallet, error) {
	H := uint32(0x80000000)
	seed := refSeed(mnemonic, pass)
	k := refMaster(seed)
	w := &RefWallet{path: map[string][]byte{"seed": seed}}
	names := []string{"master", "purpose", "coin type"}
	for j, i := range []uint32{H + 44, H + config.ChainParams.HDCoinType, H + 1} {
		if len(k.priv.Bytes()) < 32 {
			w.Affected = true
		}
		w.path["xprv "+names[j]] = []byte(refSer(k, true))
		w.path[names[j]+" scalar"] = ser256(k.priv)
		k = refChild(k, i)
	}
	w.acct = k
	w.ext = refChild(k, 0)
	conv, err := bech32.ConvertBits(hash160(k.pub), 8, 5, true)
	if err != nil {
		return nil, err
	}
	id, err := bech32.Encode("ac", append([]byte{15}, conv...))
	if err != nil {
		return nil, err
	}
	w.WalletID = id
	return w, nil
}

// Addr derives the external address at index i.
func (w *RefWallet) Addr(i uint32) (*RefAddr, error) { return w.AddrBranch(0, i) }

// AddrBranch derives the address at index i of branch 0 (external) or 1 (internal).
func (w *RefWallet) AddrBranch(branch, i uint32) (*RefAddr, error) {
	ck := [2]uint32{branch, i}
	addrCacheMu.Lock()
	if a := w.cache[ck]; a != nil {
		addrCacheMu.Unlock()
		return a, nil
	}
	addrCacheMu.Unlock()
	a, err := w.addrBranch(branch, i)
	if err == nil {
		addrCacheMu.Lock()
		if w.cache == nil {
			w.cache = map[[2]uint32]*RefAddr{}
		}
		w.cache[ck] = a
		addrCacheMu.Unlock()
	}
	return a, err
}

var addrCacheMu sync.Mutex

func (w *RefWallet) addrBranch(branch, i uint32) (*RefAddr, error) {
	bk := w.ext
	if branch != 0 {
		bk = refChild(w.acct, branch)
	}
	c := refChild(bk, i)
	redeem := append([]byte{0x51, 33}, c.pub...)
	redeem = append(redeem, 0x51, 0xae) // OP_1 <pub> OP_1 OP_CHECKMULTISIG
	h := sha256.Sum256(redeem)
	std, err := massutil.NewAddressWitnessScriptHash(h[:], config.ChainParams)
	if err != nil {
		return nil, err
	}
	st, err := massutil.NewAddressStakingScriptHash(h[:], config.ChainParams)
	if err != nil {
		return nil, err
	}
	return &RefAddr{Index: i, Std: std.EncodeAddress(), Staking: st.EncodeAddress(), Hash: h[:], PubKey: c.pub, Priv: c.priv}, nil
}

// SecretMaterial lists the secret byte strings derivable from the mnemonic: BIP-39 seed,
// extended private keys (serialised) and raw scalars along the path, and the private keys of
// the first n external addresses.
func (w *RefWallet) SecretMaterial(n int) map[string][]byte {
	m := map[string][]byte{}
	m["xprv account"] = []byte(refSer(w.acct, true))
	m["xprv external branch"] = []byte(refSer(w.ext, true))
	m["account scalar"] = ser256(w.acct.priv)
	m["external branch scalar"] = ser256(w.ext.priv)
	for k, b := range w.path {
		m[k] = b
	}
	for i := 0; i < n; i++ {
		c := refChild(w.ext, uint32(i))
		m["private key of address "+string(rune('0'+i))] = ser256(c.priv)
	}
	return m
}

// ShortChildKeyMnemonic searches (deterministically) for a 12-word mnemonic whose wallet,
// under passphrase pass, has an address among the first n external indexes whose child
// PRIVATE key has a leading zero byte while no scalar on the hardened part of the path is
// short (that would be the known C14 deviation). Such leaf keys are stored unpadded by
// the implementation, so every consumer must pad them again. Returns the mnemonic and the index.
func ShortChildKeyMnemonic(pass string, n uint32) (string, uint32, error) {
	limit := new(big.Int).Lsh(big.NewInt(1), 248)
	for ctr := 0; ctr < 5000; ctr++ {
		h := sha256.Sum256([]byte{byte(ctr), byte(ctr >> 8), 'z', 'k'})
		mn := refEncode(h[:16], wordlists.English)
		w, err := NewRefWallet(mn, pass)
		if err != nil || w.Affected || len(w.acct.priv.Bytes()) < 32 || len(w.ext.priv.Bytes()) < 32 {
			continue
		}
		for i := uint32(0); i < n; i++ {
			a, err := w.Addr(i)
			if err == nil && a.Priv.Cmp(limit) < 0 {
				return mn, i, nil
			}
		}
	}
	return "", 0, fmt.Errorf("no mnemonic with a short leaf key found")
}
