// Package enum holds the bounded-exhaustive input enumerations (C13–C16): a described
// finite family is enumerated completely and every member is compared with an
// independent reference written in the harness.
package enum

import "vh/proto"

// Out, Opts are the shard result and shard selector (defined in proto so that the
// check driver does not link the code under test).
type (
	Out  = proto.EnumOut
	Opts = proto.EnumOpts
)

// NewOut allocates an Out.
func NewOut() *Out { return proto.NewEnumOut() }
