package enum

import (
	"bytes"
	"crypto/hmac"
	"crypto/sha256"
	"crypto/sha512"
	"encoding/hex"
	"fmt"
	"strings"

	"golang.org/x/text/unicode/norm"
	"massnet.org/mass-wallet/masswallet/keystore"
	"massnet.org/mass-wallet/masswallet/keystore/wordlists"
)

// ---- independent BIP-39 reference (bit slicing, no big.Int) ----

func bip39Bits(entropy []byte) []byte { // entropy || checksum as a bit slice
	h := sha256.Sum256(entropy)
	cs := len(entropy) * 8 / 32
	bits := make([]byte, 0, len(entropy)*8+cs)
	for _, b := range entropy {
		for i := 7; i >= 0; i-- {
			bits = append(bits, (b>>uint(i))&1)
		}
	}
	for i := 0; i < cs; i++ {
		bits = append(bits, (h[i/8]>>uint(7-i%8))&1)
	}
	return bits
}

func refEncode(entropy []byte, list []string) string {
	bits := bip39Bits(entropy)
	var words []string
	for i := 0; i+11 <= len(bits); i += 11 {
		v := 0
		for j := 0; j < 11; j++ {
			v = v<<1 | int(bits[i+j])
		}
		words = append(words, list[v])
	}
	return strings.Join(words, " ")
}

// refDecode: ok iff legal length, only list words, correct checksum.
func refDecode(words []string, idx map[string]int) ([]byte, string) {
	n := len(words)
	if n%3 != 0 || n < 12 || n > 24 {
		return nil, "length"
	}
	var bits []byte
	for _, w := range words {
		v, ok := idx[w]
		if !ok {
			return nil, "word"
		}
		for j := 10; j >= 0; j-- {
			bits = append(bits, byte(v>>uint(j))&1)
		}
	}
	cs := n * 11 / 33
	eb := n*11 - cs
	ent := make([]byte, eb/8)
	for i := 0; i < eb; i++ {
		ent[i/8] |= bits[i] << uint(7-i%8)
	}
	full := bip39Bits(ent)
	if !bytes.Equal(full[eb:], bits[eb:]) {
		return nil, "checksum"
	}
	return ent, ""
}

func refPBKDF2(pass, salt []byte) []byte { // HMAC-SHA512, 2048 iterations, 64 bytes (one block)
	mac := hmac.New(sha512.New, pass)
	mac.Write(salt)
	mac.Write([]byte{0, 0, 0, 1})
	u := mac.Sum(nil)
	out := append([]byte{}, u...)
	for i := 1; i < 2048; i++ {
		mac.Reset()
		mac.Write(u)
		u = mac.Sum(nil)
		for j := range out {
			out[j] ^= u[j]
		}
	}
	return out
}

func refSeed(mnemonic, pass string) []byte {
	return refPBKDF2([]byte(norm.NFKD.String(mnemonic)), []byte("mnemonic"+norm.NFKD.String(pass)))
}

// C13 enumerates entropies and word sequences.
func C13(op Opts) *Out {
	o := NewOut()
	list := wordlists.English
	idx := map[string]int{}
	for i, w := range list {
		idx[w] = i
	}
	// trust anchors of the reference, checked in every shard before anything is believed
	hl := sha256.Sum256([]byte(strings.Join(list, "\n") + "\n"))
	if hex.EncodeToString(hl[:]) != "2f5eed53a4727b4bf8880d8f3f199efc90e58503646d9ff8eff3a2ed3b24dbda" {
		o.Add("wordlist", "English word list differs from the official BIP-39 english.txt (sha256 "+hex.EncodeToString(hl[:])+")", "wordlist")
	}
	if len(list) != 2048 {
		o.Add("wordlist", fmt.Sprintf("word list has %d entries", len(list)), "wordlist")
		return o
	}
	v1 := refEncode(make([]byte, 16), list)
	if v1 != "abandon abandon abandon abandon abandon abandon abandon abandon abandon abandon abandon about" ||
		hex.EncodeToString(refSeed(v1, "TREZOR")) != "c55257c360c07c72029aebc1b53c05ed0362ada38ead3e3e9efa3708e53495531f09a6987599d18264c1e1c92f2cf141630c7a3c4ab7c81b2f001698e7463b04" {
		panic("HARNESS-ERROR C13 reference fails BIP-39 vector 1")
	}
	v2 := refEncode(bytes.Repeat([]byte{0xff}, 16), list)
	if v2 != "zoo zoo zoo zoo zoo zoo zoo zoo zoo zoo zoo wrong" ||
		hex.EncodeToString(refSeed(v2, "TREZOR")) != "ac27495480225222079d7be181583751e86f571027b0497b5b5d11218e0a8a13332572917f0f8e5a589620c6f15b11c61dee327651a14c34e18231052e48c069" {
		panic("HARNESS-ERROR C13 reference fails BIP-39 vector 2")
	}

	k := 0
	mine := func() bool { k++; return (k-1)%op.NShards == op.Shard }
	vals := []byte{0x01, 0x7f, 0x80, 0xff}
	// the third one changes under NFKD; the rest are ASCII passphrases with white space at either
	// end or inside, which BIP-39 feeds into the salt verbatim
	passes := []string{"", "TREZOR", "pässwörd-ﬁ", " ", "TREZOR ", " TREZOR", "TREZOR\n", "\tTREZOR", "TRE ZOR"}
	seedEvery := 97
	if op.Tier != "quick" {
		seedEvery = 11
	}
	checkEntropy := func(ent []byte, withSeed bool) {
		if !mine() {
			return
		}
		o.Evaluations++
		in := hex.EncodeToString(ent)
		if ent[0] == 0 || bytes.Count(ent, []byte{0}) != len(ent) {
			o.Nontrivial++
		}
		want := refEncode(ent, list)
		got, err := keystore.NewMnemonic(ent)
		if err != nil {
			o.Add(in, "NewMnemonic failed: "+err.Error(), "encode")
			return
		}
		if got != want {
			o.Add(in, fmt.Sprintf("NewMnemonic=%q, BIP-39 encoding is %q", got, want), "encode")
			return
		}
		back, err := keystore.EntropyFromMnemonic(got)
		if err != nil || !bytes.Equal(back, ent) {
			o.Add(in, fmt.Sprintf("EntropyFromMnemonic(NewMnemonic(e)) = %x, %v", back, err), "decode")
		}
		raw, err := keystore.MnemonicToByteArray(got, true)
		if err != nil || !bytes.Equal(raw, ent) {
			o.Add(in, fmt.Sprintf("MnemonicToByteArray(raw) = %x, %v", raw, err), "decode-bytearray")
		}
		if !keystore.IsMnemonicValid(got) {
			o.Add(in, "IsMnemonicValid rejects a valid mnemonic", "isvalid")
		}
		o.Families["entropy"]++
		if withSeed {
			for _, p := range passes {
				o.Evaluations++
				s, err := keystore.NewSeedWithErrorChecking(got, p)
				ws := refSeed(got, p)
				if err != nil || !bytes.Equal(s, ws) {
					tag := "seed"
					if norm.NFKD.String(p) != p {
						tag = "seed-nfkd"
					}
					o.Add(in+"/"+p, fmt.Sprintf("seed=%x err=%v, BIP-39 seed is %x", s, err, ws), tag)
				}
				o.Families["seed"]++
			}
		}
		if o.Evaluations%401 == 1 {
			o.Sample(in + " -> " + want)
		}
	}
	n := 0
	for _, size := range []int{16, 20, 24, 28, 32} {
		base := make([]byte, size)
		emit := func(e []byte) {
			n++
			checkEntropy(append([]byte{}, e...), n%seedEvery == 0)
		}
		emit(base)
		emit(bytes.Repeat([]byte{0xff}, size))
		for z := 1; z < size; z++ { // leading-zero runs of every length followed by ones
			e := bytes.Repeat([]byte{0xff}, size)
			for i := 0; i < z; i++ {
				e[i] = 0
			}
			emit(e)
		}
		for i := 0; i < size; i++ {
			for _, v := range vals {
				e := append([]byte{}, base...)
				e[i] = v
				emit(e)
				if op.Tier != "quick" || size == 16 || i < 3 || i >= size-3 {
					for j := i + 1; j < size; j++ {
						for _, v2 := range vals {
							e2 := append([]byte{}, e...)
							e2[j] = v2
							emit(e2)
						}
					}
				}
			}
		}
	}
	if op.Tier == "deep" {
		// every value of every single byte position on three backgrounds, and a full sweep of
		// the last two bytes (the bits the checksum word shares with the entropy)
		for _, size := range []int{16, 20, 24, 28, 32} {
			for _, bg := range []byte{0x00, 0xa5, 0xff} {
				for i := 0; i < size; i++ {
					for v := 0; v < 256; v++ {
						e := bytes.Repeat([]byte{bg}, size)
						e[i] = byte(v)
						n++
						checkEntropy(e, n%seedEvery == 0)
					}
				}
			}
			for v := 0; v < 65536; v++ {
				e := bytes.Repeat([]byte{0x3c}, size)
				e[size-2], e[size-1] = byte(v>>8), byte(v)
				n++
				checkEntropy(e, n%(seedEvery*40) == 0)
			}
		}
	}
	// negative family: mutations of valid mnemonics
	checkSeq := func(s string, family string) {
		if !mine() {
			return
		}
		o.Evaluations++
		o.Nontrivial++
		o.Families[family]++
		words := strings.Fields(s)
		ent, why := refDecode(words, idx)
		canonical := strings.Join(words, " ") == s
		got, err := keystore.EntropyFromMnemonic(s)
		_, err2 := keystore.MnemonicToByteArray(s)
		_, err3 := keystore.NewSeedWithErrorChecking(s, "")
		o.Classes["neg-"+why]++
		if ent == nil {
			if err == nil {
				o.Add(s, fmt.Sprintf("EntropyFromMnemonic accepts a sequence BIP-39 rejects (%s) as %x", why, got), "accept-invalid")
			}
			if err2 == nil {
				o.Add(s, "MnemonicToByteArray accepts a sequence BIP-39 rejects ("+why+")", "accept-invalid")
			}
			if err3 == nil {
				o.Add(s, "NewSeedWithErrorChecking accepts a sequence BIP-39 rejects ("+why+")", "accept-invalid")
			}
			if (why == "length" || why == "word") && keystore.IsMnemonicValid(s) {
				o.Add(s, "IsMnemonicValid accepts wrong length / non-list word", "accept-invalid")
			}
			return
		}
		// valid word sequence, possibly re-spaced with white space only (strings.Fields found
		// exactly the words): C13 accepts a word SEQUENCE "exactly when it has a legal length,
		// only list words and a correct checksum", however its words are separated
		_ = canonical
		if err != nil {
			o.Add(s, "EntropyFromMnemonic rejects a valid word sequence: "+err.Error(), "reject-valid")
		} else if !bytes.Equal(got, ent) {
			o.Add(s, fmt.Sprintf("EntropyFromMnemonic=%x want %x", got, ent), "decode")
		}
		if err2 != nil || err3 != nil {
			o.Add(s, fmt.Sprintf("valid word sequence rejected: MnemonicToByteArray: %v, NewSeedWithErrorChecking: %v", err2, err3), "reject-valid")
		}
	}
	for _, size := range []int{16, 20, 24, 28, 32} {
		for _, fill := range []byte{0x00, 0x5a, 0xff} {
			e := bytes.Repeat([]byte{fill}, size)
			e[size-1] ^= 0x31
			m := refEncode(e, list)
			w := strings.Fields(m)
			checkSeq(m, "valid")
			for i := range w {
				for _, repl := range []string{list[(idx[w[i]]+1)%2048], list[(idx[w[i]]+1024)%2048], "zzzz", strings.ToUpper(w[i]), w[i] + "x", ""} {
					x := append([]string{}, w...)
					x[i] = repl
					checkSeq(strings.Join(x, " "), "substitute")
				}
				if i+1 < len(w) && w[i] != w[i+1] {
					x := append([]string{}, w...)
					x[i], x[i+1] = x[i+1], x[i]
					checkSeq(strings.Join(x, " "), "transpose")
				}
			}
			for l := 0; l <= len(w); l++ {
				checkSeq(strings.Join(w[:l], " "), "truncate")
			}
			checkSeq(strings.Join(append(append([]string{}, w...), w[0]), " "), "extend")
			checkSeq(strings.Join(append(append([]string{}, w...), w[:3]...), " "), "extend")
			for _, sep := range []string{"  ", "\t", "\n", " \r\n"} {
				checkSeq(strings.Join(w, sep), "respace")
			}
			checkSeq(" "+m, "respace")
			checkSeq(m+" ", "respace")
			checkSeq(strings.Join(w, ","), "respace")
		}
	}
	return o
}

// FreshMnemonic returns the BIP-39 sentence (reference encoder) of a 128-bit entropy derived
// from n: a supply of distinct valid mnemonics for callers that need a new wallet per call.
func FreshMnemonic(n uint64) string {
	var e [16]byte
	h := sha256.Sum256([]byte(fmt.Sprintf("verif fresh mnemonic %d", n)))
	copy(e[:], h[:16])
	return refEncode(e[:], wordlists.English)
}
