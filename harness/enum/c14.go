package enum

import (
	"bytes"
	"crypto/hmac"
	"crypto/sha256"
	"crypto/sha512"
	"encoding/binary"
	"encoding/hex"
	"fmt"
	"math/big"

	"github.com/btcsuite/btcd/btcec"
	"golang.org/x/crypto/ripemd160"
	"massnet.org/mass-wallet/config"
	"massnet.org/mass-wallet/masswallet/keystore/hdkeychain"
)

// ---- independent BIP-32 reference (ser256 always padded) ----

type refKey struct {
	priv  *big.Int // nil for public keys
	pub   []byte   // 33-byte compressed
	cc    []byte
	depth byte
	fp    []byte
	child uint32
}

var curve = btcec.S256()

func compress(x, y *big.Int) []byte {
	return (&btcec.PublicKey{Curve: curve, X: x, Y: y}).SerializeCompressed()
}

func ser256(n *big.Int) []byte {
	b := n.Bytes()
	out := make([]byte, 32)
	copy(out[32-len(b):], b)
	return out
}

func hash160(b []byte) []byte {
	s := sha256.Sum256(b)
	r := ripemd160.New()
	r.Write(s[:])
	return r.Sum(nil)
}

func refMaster(seed []byte) *refKey {
	m := hmac.New(sha512.New, []byte("Bitcoin seed"))
	m.Write(seed)
	I := m.Sum(nil)
	k := new(big.Int).SetBytes(I[:32])
	if k.Sign() == 0 || k.Cmp(curve.N) >= 0 {
		return nil
	}
	x, y := curve.ScalarBaseMult(ser256(k))
	return &refKey{priv: k, pub: compress(x, y), cc: I[32:], fp: []byte{0, 0, 0, 0}}
}

func refChild(p *refKey, i uint32) *refKey {
	hard := i >= 0x80000000
	if hard && p.priv == nil {
		return nil
	}
	var data []byte
	if hard {
		data = append([]byte{0}, ser256(p.priv)...)
	} else {
		data = append([]byte{}, p.pub...)
	}
	var ib [4]byte
	binary.BigEndian.PutUint32(ib[:], i)
	data = append(data, ib[:]...)
	m := hmac.New(sha512.New, p.cc)
	m.Write(data)
	I := m.Sum(nil)
	il := new(big.Int).SetBytes(I[:32])
	if il.Cmp(curve.N) >= 0 {
		return nil
	}
	c := &refKey{cc: I[32:], depth: p.depth + 1, fp: hash160(p.pub)[:4], child: i}
	if p.priv != nil {
		k := new(big.Int).Add(il, p.priv)
		k.Mod(k, curve.N)
		if k.Sign() == 0 {
			return nil
		}
		c.priv = k
		x, y := curve.ScalarBaseMult(ser256(k))
		c.pub = compress(x, y)
	} else {
		ix, iy := curve.ScalarBaseMult(I[:32])
		pk, err := btcec.ParsePubKey(p.pub, curve)
		if err != nil {
			return nil
		}
		x, y := curve.Add(ix, iy, pk.X, pk.Y)
		if x.Sign() == 0 && y.Sign() == 0 {
			return nil
		}
		c.pub = compress(x, y)
	}
	return c
}

func refNeuter(k *refKey) *refKey {
	c := *k
	c.priv = nil
	return &c
}

const b58 = "123456789ABCDEFGHJKLMNPQRSTUVWXYZabcdefghijkmnopqrstuvwxyz"

func b58enc(b []byte) string {
	x := new(big.Int).SetBytes(b)
	var out []byte
	m := new(big.Int)
	r := big.NewInt(58)
	for x.Sign() > 0 {
		x.DivMod(x, r, m)
		out = append(out, b58[m.Int64()])
	}
	for _, c := range b {
		if c != 0 {
			break
		}
		out = append(out, '1')
	}
	for i, j := 0, len(out)-1; i < j; i, j = i+1, j-1 {
		out[i], out[j] = out[j], out[i]
	}
	return string(out)
}

func refSer(k *refKey, private bool) string {
	var b []byte
	if private {
		b = append(b, config.ChainParams.HDPrivateKeyID[:]...)
	} else {
		b = append(b, config.ChainParams.HDPublicKeyID[:]...)
	}
	b = append(b, k.depth)
	b = append(b, k.fp...)
	var ib [4]byte
	binary.BigEndian.PutUint32(ib[:], k.child)
	b = append(b, ib[:]...)
	b = append(b, k.cc...)
	if private {
		b = append(b, 0)
		b = append(b, ser256(k.priv)...)
	} else {
		b = append(b, k.pub...)
	}
	h1 := sha256.Sum256(b)
	h2 := sha256.Sum256(h1[:])
	return b58enc(append(b, h2[:4]...))
}

func mustHex(s string) []byte { b, _ := hex.DecodeString(s); return b }

func c14ValidateRef() {
	type vec struct {
		seed       string
		path       []uint32
		xpub, xprv string
	}
	H := uint32(0x80000000)
	vs := []vec{
		{"000102030405060708090a0b0c0d0e0f", []uint32{H, 1, H + 2, 2, 1000000000},
			"xpub6H1LXWLaKsWFhvm6RVpEL9P4KfRZSW7abD2ttkWP3SSQvnyA8FSVqNTEcYFgJS2UaFcxupHiYkro49S8yGasTvXEYBVPamhGW6cFJodrTHy",
			"xprvA41z7zogVVwxVSgdKUHDy1SKmdb533PjDz7J6N6mV6uS3ze1ai8FHa8kmHScGpWmj4WggLyQjgPie1rFSruoUihUZREPSL39UNdE3BBDu76"},
		{"fffcf9f6f3f0edeae7e4e1dedbd8d5d2cfccc9c6c3c0bdbab7b4b1aeaba8a5a29f9c999693908d8a8784817e7b7875726f6c696663605d5a5754514e4b484542", []uint32{0, H + 2147483647, 1},
			"xpub6DF8uhdarytz3FWdA8TvFSvvAh8dP3283MY7p2V4SeE2wyWmG5mg5EwVvmdMVCQcoNJxGoWaU9DCWh89LojfZ537wTfunKau47EL2dhHKon",
			"xprv9zFnWC6h2cLgpmSA46vutJzBcfJ8yaJGg8cX1e5StJh45BBciYTRXSd25UEPVuesF9yog62tGAQtHjXajPPdbRCHuWS6T8XA2ECKADdw4Ef"},
		{"4b381541583be4423346c643850da4b320e46a87ae3d2a4e6da11eba819cd4acba45d239319ac14f863b8d5ab5a0d0c64d2e8a1e7d1457df2e5a3c51c73235be", []uint32{H},
			"xpub68NZiKmJWnxxS6aaHmn81bvJeTESw724CRDs6HbuccFQN9Ku14VQrADWgqbhhTHBaohPX4CjNLf9fq9MYo6oDaPPLPxSb7gwQN3ih19Zm4Y",
			"xprv9uPDJpEQgRQfDcW7BkF7eTya6RPxXeJCqCJGHuCJ4GiRVLzkTXBAJMu2qaMWPrS7AANYqdq6vcBcBUdJCVVFceUvJFjaPdGZ2y9WACViL4L"},
	}
	for _, v := range vs {
		k := refMaster(mustHex(v.seed))
		for _, i := range v.path {
			k = refChild(k, i)
		}
		if refSer(k, true) != v.xprv || refSer(k, false) != v.xpub {
			panic("HARNESS-ERROR C14 reference fails a BIP-32 test vector for seed " + v.seed)
		}
	}
}

func pathStr(p []uint32) string {
	s := "m"
	for _, i := range p {
		if i >= 0x80000000 {
			s += fmt.Sprintf("/%d'", i-0x80000000)
		} else {
			s += fmt.Sprintf("/%d", i)
		}
	}
	return s
}

// c14Compare checks one implementation key against the reference key.
func c14Compare(o *Out, in string, k *hdkeychain.ExtendedKey, r *refKey, parentShort bool, hard bool) bool {
	tag := "bip32-mismatch"
	if parentShort && hard {
		tag = "hardened-child-of-short-scalar"
	}
	if r.priv != nil {
		if got, want := k.String(), refSer(r, true); got != want {
			o.Add(in, fmt.Sprintf("private key serialises to %s, BIP-32 gives %s", got, want), tag)
			return false
		}
		pk, err := k.ECPrivKey()
		if err != nil || pk.D.Cmp(r.priv) != 0 {
			o.Add(in, "ECPrivKey differs from BIP-32 scalar", tag)
			return false
		}
	}
	n, err := k.Neuter()
	if err != nil {
		o.Add(in, "Neuter failed: "+err.Error(), tag)
		return false
	}
	if got, want := n.String(), refSer(r, false); got != want {
		o.Add(in, fmt.Sprintf("public key serialises to %s, BIP-32 gives %s", got, want), tag)
		return false
	}
	if k.Depth() != r.depth || k.ParentFingerprint() != binary.BigEndian.Uint32(r.fp) {
		o.Add(in, "depth / parent fingerprint mismatch", tag)
		return false
	}
	return true
}

// C14 enumerates seeds x paths and serialisation corruptions.
func C14(op Opts) *Out {
	o := NewOut()
	c14ValidateRef()
	H := uint32(0x80000000)
	idxs := []uint32{0, 1, H - 1, H, H + 1}
	depth := 2
	if op.Tier != "quick" {
		depth = 3
	}
	k := 0
	mine := func() bool { k++; return (k-1)%op.NShards == op.Shard }

	var walk func(in string, ik *hdkeychain.ExtendedKey, rk *refKey, path []uint32, d int)
	walk = func(in string, ik *hdkeychain.ExtendedKey, rk *refKey, path []uint32, d int) {
		if d == 0 {
			return
		}
		short := rk.priv != nil && len(rk.priv.Bytes()) < 32
		ipub, _ := ik.Neuter()
		for _, i := range idxs {
			p := append(append([]uint32{}, path...), i)
			name := in + " " + pathStr(p)
			rc := refChild(rk, i)
			o.Evaluations++
			o.Families["derive"]++
			ic, err := ik.Child(i)
			if rc == nil {
				if err == nil {
					o.Add(name, "derived a child where BIP-32 says the index is invalid", "bip32-mismatch")
				}
				continue
			}
			if err != nil {
				o.Add(name, "Child failed: "+err.Error(), "bip32-mismatch")
				continue
			}
			hard := i >= H
			if short {
				o.Nontrivial++
			}
			if !c14Compare(o, name, ic, rc, short, hard) {
				continue // everything below a wrong key is tainted
			}
			if !hard { // public derivation commutes with neutering
				o.Evaluations++
				pc, err := ipub.Child(i)
				if err != nil {
					o.Add(name, "public Child failed: "+err.Error(), "pub-derive")
				} else if pc.String() != refSer(rc, false) {
					o.Add(name, "public derivation != neuter(private derivation)", "pub-derive")
				}
			} else if _, err := ipub.Child(i); err == nil {
				o.Add(name, "hardened child derived from a public key", "pub-derive")
			}
			// parse(serialise) = id
			o.Evaluations++
			s := ic.String()
			back, err := hdkeychain.NewKeyFromString(s)
			if err != nil || back.String() != s || back.IsPrivate() != ic.IsPrivate() {
				o.Add(name, fmt.Sprintf("NewKeyFromString(String()) = %v, %v", back, err), "parse-roundtrip")
			} else if d > 1 {
				// the parsed key must behave like the original: derive one child from both
				for _, j := range []uint32{0, H} {
					a, e1 := ic.Child(j)
					b, e2 := back.Child(j)
					if (e1 == nil) != (e2 == nil) || (e1 == nil && a.String() != b.String()) {
						t := "parse-roundtrip"
						if len(rc.priv.Bytes()) < 32 && j >= H {
							t = "hardened-child-of-short-scalar"
						}
						o.Add(name+fmt.Sprintf(" child %d", j), "child of parsed key differs from child of original key", t)
					}
				}
			}
			walk(in, ic, rc, p, d-1)
		}
	}

	// family (a): masters from structured seeds
	var seeds [][]byte
	for _, n := range []int{16, 32, 64} {
		seeds = append(seeds, make([]byte, n), bytes.Repeat([]byte{0xff}, n))
		for i := 0; i < n; i++ {
			for _, v := range []byte{0x01, 0x80, 0xff, 0x0a, 0x0d, 0x20} { // incl. line-end and blank bytes
				s := make([]byte, n)
				s[i] = v
				seeds = append(seeds, s)
			}
		}
	}
	seeds = append(seeds, mustHex("000102030405060708090a0b0c0d0e0f"), mustHex("4b381541583be4423346c643850da4b320e46a87ae3d2a4e6da11eba819cd4acba45d239319ac14f863b8d5ab5a0d0c64d2e8a1e7d1457df2e5a3c51c73235be"))
	for _, s := range seeds {
		if !mine() {
			continue
		}
		in := "seed:" + hex.EncodeToString(s)
		rm := refMaster(s)
		im, err := hdkeychain.NewMaster(s, config.ChainParams)
		o.Evaluations++
		o.Families["master"]++
		if rm == nil {
			if err == nil {
				o.Add(in, "NewMaster accepted an unusable seed", "bip32-mismatch")
			}
			continue
		}
		if err != nil {
			o.Add(in, "NewMaster failed: "+err.Error(), "bip32-mismatch")
			continue
		}
		if !c14Compare(o, in, im, rm, false, false) {
			continue
		}
		o.Sample(in + " -> " + refSer(rm, false))
		walk(in, im, rm, nil, depth)
	}
	// invalid seed lengths
	if op.Shard == 0 {
		for _, n := range []int{0, 1, 15, 65, 128} {
			o.Evaluations++
			if _, err := hdkeychain.NewMaster(make([]byte, n), config.ChainParams); err == nil {
				o.Add(fmt.Sprintf("seedlen:%d", n), "NewMaster accepted an illegal seed length", "seed-length")
			}
		}
	}
	// family (b): reach the 1/256 class deliberately: for each parent search the first
	// non-hardened index whose child scalar has a leading zero byte, then derive its
	// hardened and non-hardened children on the implementation.
	parents := [][]byte{make([]byte, 32), bytes.Repeat([]byte{0x11}, 32), bytes.Repeat([]byte{0xa5}, 16), mustHex("000102030405060708090a0b0c0d0e0f")}
	nb := 4
	if op.Tier != "quick" {
		for b := byte(1); b < 40; b++ {
			parents = append(parents, bytes.Repeat([]byte{b, 0x3c}, 16))
		}
		nb = 12
	}
	for _, s := range parents {
		rm := refMaster(s)
		im, err := hdkeychain.NewMaster(s, config.ChainParams)
		if rm == nil || err != nil {
			continue
		}
		found := 0
		for i := uint32(0); i < 20000 && found < nb; i++ {
			for _, hardFirst := range []bool{false, true} {
				idx := i
				if hardFirst {
					idx += H
				}
				rc := refChild(rm, idx)
				if rc == nil || len(rc.priv.Bytes()) >= 32 {
					continue
				}
				found++
				if !mine() {
					continue
				}
				ic, err := im.Child(idx)
				in := fmt.Sprintf("seed:%x %s (scalar has %d significant bytes)", s, pathStr([]uint32{idx}), len(rc.priv.Bytes()))
				o.Families["short-scalar-parent"]++
				if err != nil {
					o.Add(in, "Child failed: "+err.Error(), "bip32-mismatch")
					continue
				}
				if !c14Compare(o, in, ic, rc, false, hardFirst) {
					continue
				}
				walk(fmt.Sprintf("seed:%x", s), ic, rc, []uint32{idx}, 1)
			}
		}
	}
	// family (c): corruption of serialised keys
	if true {
		rm := refMaster(mustHex("000102030405060708090a0b0c0d0e0f"))
		rc := refChild(refChild(rm, H), 1)
		for _, s := range []string{refSer(rc, true), refSer(rc, false)} {
			for pos := 0; pos < len(s); pos++ {
				for _, d := range []int{1, 7, 29} {
					if !mine() {
						continue
					}
					o.Evaluations++
					o.Nontrivial++
					o.Families["corrupt-char"]++
					c := b58[(bytes.IndexByte([]byte(b58), s[pos])+d)%58]
					m := s[:pos] + string(c) + s[pos+1:]
					if k, err := hdkeychain.NewKeyFromString(m); err == nil {
						o.Add(m, "accepted a corrupted serialisation as "+keyStr(k), "parse-accepts-corrupt")
					}
				}
			}
			for l := 0; l < len(s); l++ {
				if !mine() {
					continue
				}
				o.Evaluations++
				o.Families["truncate"]++
				if _, err := hdkeychain.NewKeyFromString(s[:l]); err == nil {
					o.Add(s[:l], "accepted a truncated serialisation", "parse-accepts-corrupt")
				}
				if _, err := hdkeychain.NewKeyFromString(s + string(b58[l%58])); err == nil {
					o.Add(s+string(b58[l%58]), "accepted an extended serialisation", "parse-accepts-corrupt")
				}
			}
		}
		// valid checksum, bad key material
		if op.Shard == 0 {
			mk := func(keyData []byte) string {
				b := append([]byte{}, config.ChainParams.HDPrivateKeyID[:]...)
				b = append(b, 1, 1, 2, 3, 4, 0, 0, 0, 5)
				b = append(b, bytes.Repeat([]byte{7}, 32)...)
				b = append(b, keyData...)
				h1 := sha256.Sum256(b)
				h2 := sha256.Sum256(h1[:])
				return b58enc(append(b, h2[:4]...))
			}
			bad := map[string][]byte{
				"priv=0":        append([]byte{0}, make([]byte, 32)...),
				"priv=n":        append([]byte{0}, ser256(curve.N)...),
				"priv=n+1":      append([]byte{0}, ser256(new(big.Int).Add(curve.N, big.NewInt(1)))...),
				"pub-off-curve": append([]byte{2}, ser256(big.NewInt(5))...), // x=5 has no point on secp256k1
				"pub-x>=p":      append([]byte{3}, bytes.Repeat([]byte{0xff}, 32)...),
				"pub-prefix-04": append([]byte{4}, ser256(big.NewInt(1))...),
				"pub-prefix-01": append([]byte{1}, ser256(big.NewInt(1))...),
			}
			for name, kd := range bad {
				o.Evaluations++
				o.Families["bad-key-material"]++
				if k, err := hdkeychain.NewKeyFromString(mk(kd)); err == nil {
					o.Add(name, "accepted out-of-range / off-curve key material as "+keyStr(k), "parse-accepts-bad-key")
				}
			}
			// over-long payloads with a checksum that matches them: serialised keys are exactly 78+4 bytes
			for _, extra := range [][]byte{{0}, {1}, {0, 0, 0, 0}, {9, 9, 9, 9, 9, 9, 9, 9}} {
				for _, kd := range [][]byte{append([]byte{0}, ser256(big.NewInt(1))...), append([]byte{2}, ser256(curve.Gx)...)} {
					o.Evaluations++
					o.Families["over-long"]++
					b := append([]byte{}, config.ChainParams.HDPrivateKeyID[:]...)
					if kd[0] != 0 {
						b = append([]byte{}, config.ChainParams.HDPublicKeyID[:]...)
					}
					b = append(b, 1, 1, 2, 3, 4, 0, 0, 0, 5)
					b = append(b, bytes.Repeat([]byte{7}, 32)...)
					b = append(b, kd...)
					b = append(b, extra...)
					h1 := sha256.Sum256(b)
					h2 := sha256.Sum256(h1[:])
					str := b58enc(append(b, h2[:4]...))
					if k, err := hdkeychain.NewKeyFromString(str); err == nil {
						o.Add(fmt.Sprintf("over-long payload (+%d bytes)", len(extra)), "accepted a serialisation with surplus bytes as "+keyStr(k), "parse-accepts-corrupt")
					}
				}
			}
			good := mk(append([]byte{0}, ser256(big.NewInt(1))...))
			if _, err := hdkeychain.NewKeyFromString(good); err != nil {
				o.Add("priv=1", "rejected a valid serialisation: "+err.Error(), "parse-rejects-valid")
			}
		}
	}
	return o
}

// keyStr describes a key returned without an error; a nil key with a nil error is itself
// a reportable answer, not something to dereference.
func keyStr(k *hdkeychain.ExtendedKey) string {
	if k == nil {
		return "<nil key returned with a nil error>"
	}
	return k.String()
}
