package enum

import (
	"bytes"
	"encoding/binary"
	"encoding/hex"
	"fmt"

	"github.com/massnetorg/mass-core/consensus"
	"github.com/massnetorg/mass-core/massutil"
	"github.com/massnetorg/mass-core/txscript"
	"github.com/massnetorg/mass-core/wire"
	"massnet.org/mass-wallet/api"
	"massnet.org/mass-wallet/config"
	"massnet.org/mass-wallet/masswallet"
	"massnet.org/mass-wallet/masswallet/utils"
)

func push(b []byte) []byte { // canonical direct push (len <= 75)
	return append([]byte{byte(len(b))}, b...)
}

func le8(v uint64) []byte { b := make([]byte, 8); binary.LittleEndian.PutUint64(b, v); return b }

func c16Check(o *Out, script []byte, family string) {
	o.Evaluations++
	o.Families[family]++
	in := hex.EncodeToString(script)
	class := txscript.GetScriptClass(script)
	if o.Evaluations%50021 == 3 {
		o.Sample(fmt.Sprintf("%s (consensus class %v)", in, class))
	}
	var cclass txscript.ScriptClass
	var addrs []massutil.Address
	var cerr error
	consensusPanic := false
	func() {
		defer func() {
			if e := recover(); e != nil {
				// mass-core bug: ExtractPkScriptAddrs dereferences nil for a multisig script with an
				// unparsable public key. The oracle is undefined there; the wallet must still not panic.
				consensusPanic = true
				o.Classes["consensus-library-panics"]++
			}
		}()
		cclass, addrs, _, _, cerr = txscript.ExtractPkScriptAddrs(script, config.ChainParams)
	}()
	o.Classes[fmt.Sprintf("consensus-class-%d", class)]++
	if class == txscript.WitnessV0ScriptHashTy || class == txscript.StakingScriptHashTy || class == txscript.BindingScriptHashTy {
		o.Nontrivial++
	}
	// wallet reading
	var ps utils.PkScript
	var perr error
	func() {
		defer func() {
			if e := recover(); e != nil {
				perr = fmt.Errorf("PANIC %v", e)
				o.Add(in, fmt.Sprintf("utils.ParsePkScript panicked: %v", e), "parse-panic")
			}
		}()
		ps, perr = utils.ParsePkScript(script, config.ChainParams)
	}()
	// API reading
	func() {
		defer func() {
			if e := recover(); e != nil {
				o.Add(in, fmt.Sprintf("api.extractAddressInfos panicked: %v", e), "api-panic")
			}
		}()
		ac, recipient, staking, binding, _, aerr := api.VerifExtractAddressInfos(script)
		if aerr != nil || consensusPanic {
			return
		}
		if ac != cclass {
			o.Add(in, fmt.Sprintf("api class %v, consensus %v", ac, cclass), "api-mismatch")
		}
		switch cclass {
		case txscript.WitnessV0ScriptHashTy:
			if recipient != addrs[0].EncodeAddress() || staking != "" || binding != "" {
				o.Add(in, "api: wrong recipient for standard script", "api-mismatch")
			}
		case txscript.StakingScriptHashTy:
			std, _ := massutil.NewAddressWitnessScriptHash(addrs[0].ScriptAddress(), config.ChainParams)
			if staking != addrs[0].EncodeAddress() || recipient != std.EncodeAddress() {
				o.Add(in, "api: wrong staking/recipient address", "api-mismatch")
			}
		case txscript.BindingScriptHashTy:
			if recipient != addrs[0].EncodeAddress() || len(addrs) < 2 || !bytes.HasPrefix([]byte(binding), []byte(addrs[1].EncodeAddress()+":")) {
				o.Add(in, "api: wrong holder/binding target", "api-mismatch")
			}
		}
	}()
	if perr != nil && len(perr.Error()) > 5 && perr.Error()[:5] == "PANIC" {
		return
	}
	switch class {
	case txscript.WitnessV0ScriptHashTy, txscript.StakingScriptHashTy, txscript.BindingScriptHashTy:
		if cerr != nil {
			return
		}
		want := 1
		if class == txscript.BindingScriptHashTy {
			want = 2
		}
		if len(addrs) < want {
			// consensus itself cannot encode an address of this template (e.g. unknown binding
			// target type): the wallet may reject it, it only must not panic.
			o.Classes["template-without-address"]++
			if perr == nil {
				o.Add(in, "wallet reads a script whose address consensus cannot encode", "accepts-unencodable")
			}
			return
		}
		if perr != nil {
			o.Add(in, fmt.Sprintf("consensus class %v but the wallet rejects the script: %v", class, perr), "rejects-template")
			return
		}
		if ps.ScriptClass() != class {
			o.Add(in, fmt.Sprintf("wallet class %v, consensus %v", ps.ScriptClass(), class), "class-mismatch")
			return
		}
		// hash: second item of the script, decoded here independently
		hash := script[2:34]
		std, _ := massutil.NewAddressWitnessScriptHash(hash, config.ChainParams)
		if !bytes.Equal(ps.StdScriptAddress(), hash) || ps.StdEncodeAddress() != std.EncodeAddress() {
			o.Add(in, "owner (standard) address differs from the script hash in the script", "owner-mismatch")
		}
		switch class {
		case txscript.WitnessV0ScriptHashTy:
			if ps.Maturity() != 0 || ps.IsStaking() || ps.IsBinding() || ps.AddressClass() != massutil.AddressClassWitnessV0 {
				o.Add(in, "standard script read with maturity/flags", "std-fields")
			}
			if addrs[0].EncodeAddress() != ps.StdEncodeAddress() {
				o.Add(in, "standard address differs from consensus encoding", "owner-mismatch")
			}
		case txscript.StakingScriptHashTy:
			frozen := binary.LittleEndian.Uint64(script[35:43])
			if ps.Maturity() != frozen+1 {
				o.Add(in, fmt.Sprintf("staking maturity %d, frozen period in script %d", ps.Maturity(), frozen), "staking-maturity")
			}
			if ps.SecondEncodeAddress() != addrs[0].EncodeAddress() || !ps.IsStaking() || ps.AddressClass() != massutil.AddressClassWitnessStaking {
				o.Add(in, "staking address differs from consensus encoding", "staking-address")
			}
		case txscript.BindingScriptHashTy:
			target := script[35:]
			if !bytes.Equal(ps.SecondScriptAddress(), target) || ps.SecondEncodeAddress() != addrs[1].EncodeAddress() || !ps.IsBinding() {
				o.Add(in, "binding target differs from consensus encoding", "binding-target")
			}
			wantMat := uint64(0)
			if len(target) == 22 {
				wantMat = consensus.MASSIP0002BindingLockedPeriod
			}
			if ps.Maturity() != wantMat {
				o.Add(in, fmt.Sprintf("binding maturity %d want %d", ps.Maturity(), wantMat), "binding-maturity")
			}
		}
	default:
		if perr == nil {
			o.Add(in, fmt.Sprintf("consensus class %v (not a wallet template) but the wallet reads it as class %v", class, ps.ScriptClass()), "accepts-nontemplate")
		} else if perr != utils.ErrUnsupportedScript {
			o.Add(in, fmt.Sprintf("script of consensus class %v is not reported as unsupported but as error %q", class, perr), "unsupported-not-reported")
		}
	}
}

// C16 enumerates output scripts.
func C16(op Opts) *Out {
	o := NewOut()
	h1 := bytes.Repeat([]byte{0x00}, 32)
	h2 := bytes.Repeat([]byte{0xff}, 32)
	h3 := mustHex("0102030405060708090a0b0c0d0e0f101112131415161718191a1b1c1d1e1f20")
	t20 := bytes.Repeat([]byte{0x61}, 20)
	t22 := append(bytes.Repeat([]byte{0x62}, 20), 0, 32)
	t22chia := append(bytes.Repeat([]byte{0x63}, 20), 1, 32)
	t22bad := append(bytes.Repeat([]byte{0x64}, 20), 5, 32)
	t22size := append(bytes.Repeat([]byte{0x65}, 20), 0, 250)
	minF, maxF := consensus.MinFrozenPeriod, uint64(wire.SequenceLockTimeMask-1)
	pub33 := append([]byte{2}, h3...)
	items := [][]byte{
		{txscript.OP_0}, {txscript.OP_1}, {txscript.OP_2}, {txscript.OP_RETURN}, {txscript.OP_CHECKMULTISIG},
		{txscript.OP_CHECKSEQUENCEVERIFY}, {txscript.OP_DROP}, {txscript.OP_1NEGATE},
		push(h3), push(h2), push(t20), push(t22), push(t22chia), push(t22bad), push(t22size),
		push(le8(minF)), push(le8(maxF)), push(le8(0)), push(le8(maxF + 1)), push(le8(^uint64(0))),
		push(pub33), push(h3[:31]), push(append(append([]byte{}, h3...), 1)), push([]byte("verif")),
		append([]byte{txscript.OP_PUSHDATA1, 32}, h3...), // non-minimal push of 32 bytes
		{0x20, 1, 2, 3},               // truncated push
		{txscript.OP_PUSHDATA2, 0xff}, // truncated pushdata2
	}
	maxItems := 4
	if op.Tier != "quick" {
		maxItems = 5
	}
	idx := 0
	var rec func(s []byte, n int)
	rec = func(s []byte, n int) {
		if idx%op.NShards == op.Shard {
			c16Check(o, s, "grammar")
			if idx%7919 == 0 {
				o.Sample(hex.EncodeToString(s))
			}
		}
		idx++
		if n == maxItems {
			return
		}
		for _, it := range items {
			rec(append(append([]byte{}, s...), it...), n+1)
		}
	}
	rec(nil, 0)
	// mutations of the valid templates
	var templates [][]byte
	for _, h := range [][]byte{h1, h2, h3} {
		templates = append(templates, append([]byte{txscript.OP_0}, push(h)...))
		for _, f := range []uint64{minF, minF + 1, maxF} {
			templates = append(templates, append(append([]byte{txscript.OP_0}, push(h)...), push(le8(f))...))
		}
		for _, t := range [][]byte{t20, t22, t22chia} {
			templates = append(templates, append(append([]byte{txscript.OP_0}, push(h)...), push(t)...))
		}
	}
	k := 0
	for _, t := range templates {
		if k%op.NShards == op.Shard {
			c16Check(o, t, "template")
		}
		k++
		for pos := range t {
			for _, m := range []func(byte) byte{func(b byte) byte { return b ^ 1 }, func(b byte) byte { return b ^ 0x80 }, func(byte) byte { return 0 }, func(byte) byte { return 0xff }, func(b byte) byte { return b + 1 }, func(b byte) byte { return b - 1 }} {
				x := append([]byte{}, t...)
				x[pos] = m(x[pos])
				if k%op.NShards == op.Shard {
					c16Check(o, x, "mutate-byte")
				}
				k++
			}
		}
		for l := 0; l < len(t); l++ {
			if k%op.NShards == op.Shard {
				c16Check(o, t[:l], "truncate")
			}
			k++
		}
		for _, e := range []byte{0x00, 0x01, 0x51, 0x75, 0xb2, 0xff} {
			if k%op.NShards == op.Shard {
				c16Check(o, append(append([]byte{}, t...), e), "extend")
			}
			k++
		}
	}
	// builders read back
	if op.Shard == 0 {
		for _, h := range [][]byte{h1, h2, h3} {
			o.Evaluations++
			o.Families["builders"]++
			addr, _ := massutil.NewAddressWitnessScriptHash(h, config.ChainParams)
			pk, err := masswallet.PayToWitnessV0Address(addr.EncodeAddress(), config.ChainParams)
			if err != nil {
				o.Add(addr.EncodeAddress(), "PayToWitnessV0Address failed: "+err.Error(), "builder")
				continue
			}
			ps, err := utils.ParsePkScript(pk, config.ChainParams)
			if err != nil || ps.StdEncodeAddress() != addr.EncodeAddress() || ps.IsStaking() || ps.IsBinding() {
				o.Add(addr.EncodeAddress(), "standard script built by the wallet does not read back", "builder")
			}
			saddr, _ := massutil.NewAddressStakingScriptHash(h, config.ChainParams)
			// a staking address must not be accepted as a standard recipient
			if _, err := masswallet.PayToWitnessV0Address(saddr.EncodeAddress(), config.ChainParams); err == nil {
				o.Add(saddr.EncodeAddress(), "PayToWitnessV0Address accepts a staking address", "builder")
			}
			for _, f := range []uint64{0, 1, minF - 1, minF, minF + 1, 1 << 20, 0xffffffff, maxF} {
				o.Evaluations++
				o.Families["builders"]++
				amt, _ := massutil.NewAmountFromInt(100000000)
				mtx := wire.NewMsgTx()
				err := masswallet.VerifConstructStakingTxOut([]*masswallet.StakingTxOut{{Address: saddr.EncodeAddress(), FrozenPeriod: uint32(f), Amount: amt}}, mtx)
				if f < minF {
					// below the consensus minimum: refuse, or at least never build ANOTHER period
					// than the one asked for
					if err == nil {
						if ps, perr := utils.ParsePkScript(mtx.TxOut[0].PkScript, config.ChainParams); perr != nil || ps.Maturity() != f+1 {
							o.Add(fmt.Sprintf("%s/%d", saddr.EncodeAddress(), f), "staking builder was asked for a frozen period below the consensus minimum and built a script with a different period", "builder")
						} else {
							o.Add(fmt.Sprintf("%s/%d", saddr.EncodeAddress(), f), "staking builder accepts a frozen period below the consensus minimum", "builder")
						}
					}
					continue
				}
				if f > maxF {
					if err == nil {
						o.Add(fmt.Sprintf("%s/%d", saddr.EncodeAddress(), f), "staking builder accepts a frozen period above the consensus maximum", "builder")
					}
					continue
				}
				if err != nil {
					o.Add(fmt.Sprintf("%s/%d", saddr.EncodeAddress(), f), "staking builder failed: "+err.Error(), "builder")
					continue
				}
				ps, err := utils.ParsePkScript(mtx.TxOut[0].PkScript, config.ChainParams)
				if err != nil || !ps.IsStaking() || ps.SecondEncodeAddress() != saddr.EncodeAddress() || ps.Maturity() != f+1 || ps.StdEncodeAddress() != addr.EncodeAddress() {
					o.Add(fmt.Sprintf("%s/%d", saddr.EncodeAddress(), f), "staking script built by the wallet does not read back", "builder")
				}
			}
			for _, t := range [][]byte{t20, t22, t22chia} {
				o.Evaluations++
				o.Families["builders"]++
				pk, err := txscript.PayToBindingScriptHashScript(h, t) // what EstimateBindingTxFee calls
				if err != nil {
					continue
				}
				ps, err := utils.ParsePkScript(pk, config.ChainParams)
				if err != nil || !ps.IsBinding() || !bytes.Equal(ps.SecondScriptAddress(), t) || ps.StdEncodeAddress() != addr.EncodeAddress() {
					o.Add(hex.EncodeToString(pk), "binding script does not read back", "builder")
				}
			}
		}
	}
	return o
}
