package enum

import (
	"fmt"
	"math/big"
	"regexp"
	"strings"

	"github.com/massnetorg/mass-core/consensus"
	"massnet.org/mass-wallet/api"
	"massnet.org/mass-wallet/masswallet"
)

var c15Alphabet = []string{"0", "1", "5", "9", ".", "+", "-", "e", "_", " ", "\x00", "٣"}

var (
	reStrict = regexp.MustCompile(`^[0-9]+(\.[0-9]+)?$`)
	reOpen   = regexp.MustCompile(`^[0-9]*\.?[0-9]*$`) // "", ".", ".5", "5." : status left open by C15
)

// c15Ref is the exact decimal reference: (accept?, value in maxwell, open?).
func c15Ref(s string) (accept bool, val *big.Int, open bool) {
	if !reOpen.MatchString(s) {
		return false, nil, false
	}
	open = !reStrict.MatchString(s)
	ip, fp := s, ""
	if i := strings.IndexByte(s, '.'); i >= 0 {
		ip, fp = s[:i], s[i+1:]
	}
	fp = strings.TrimRight(fp, "0")
	if len(fp) > 8 {
		return false, nil, open
	}
	fp += strings.Repeat("0", 8-len(fp))
	v := new(big.Int)
	if ip != "" {
		v.SetString(ip, 10)
	}
	v.Mul(v, big.NewInt(100000000))
	f := new(big.Int)
	f.SetString(fp, 10)
	v.Add(v, f)
	max := new(big.Int).Mul(new(big.Int).SetUint64(consensus.MaxMass), big.NewInt(100000000))
	if v.Cmp(max) > 0 {
		return false, nil, open
	}
	return true, v, open
}

func c15CheckParse(o *Out, s string) {
	o.Evaluations++
	acc, val, open := c15Ref(s)
	hasDigit := strings.ContainsAny(s, "0123456789")
	nonDigit := strings.Trim(s, "0123456789") != ""
	if hasDigit && nonDigit {
		o.Nontrivial++
	}
	var got *big.Int
	var gerr error
	func() {
		defer func() {
			if e := recover(); e != nil {
				gerr = fmt.Errorf("PANIC: %v", e)
				o.Add(s, fmt.Sprintf("StringToAmount panicked: %v", e), "parse-panic")
			}
		}()
		a, err := api.StringToAmount(s)
		if err != nil {
			gerr = err
			return
		}
		got = new(big.Int).SetUint64(a.UintValue())
	}()
	switch {
	case acc && !open:
		o.Classes["must-accept"]++
		if gerr != nil {
			o.Add(s, "rejected a plain decimal within range: "+gerr.Error(), "rejects-valid")
		} else if got.Cmp(val) != 0 {
			o.Add(s, fmt.Sprintf("parsed as %v maxwell, exact value is %v", got, val), "wrong-value")
		}
	case open:
		o.Classes["open"]++
		if gerr == nil && (!acc || got.Cmp(val) != 0) {
			o.Add(s, fmt.Sprintf("open-form input read as %v, natural value %v (accept=%v)", got, val, acc), "wrong-value-open")
		}
	default:
		o.Classes["must-reject"]++
		if gerr == nil {
			tag := "accepts-garbage"
			if strings.ContainsAny(s, "+-") {
				tag = "accepts-sign"
			}
			o.Add(s, fmt.Sprintf("accepted as %v maxwell although it is not an unsigned plain decimal within range/precision", got), tag)
		}
	}
}

func c15CheckFormat(o *Out, m int64) {
	o.Evaluations++
	max := int64(consensus.MaxMass) * 100000000
	in := fmt.Sprintf("int:%d", m)
	s1, e1 := api.AmountToString(m)
	s2, e2 := masswallet.AmountToString(m)
	if (e1 == nil) != (e2 == nil) || s1 != s2 {
		o.Add(in, fmt.Sprintf("api.AmountToString=%q,%v masswallet.AmountToString=%q,%v", s1, e1, s2, e2), "format-disagree")
		return
	}
	if m < 0 || m > max {
		o.Classes["format-out-of-range"]++
		if e1 == nil {
			o.Add(in, "formatted an amount outside [0, max supply]: "+s1, "format-out-of-range")
		}
		return
	}
	o.Classes["format-in-range"]++
	if m%100000000 != 0 {
		o.Nontrivial++
	}
	if e1 != nil {
		o.Add(in, "refused to format: "+e1.Error(), "format-refused")
		return
	}
	// shortest plain decimal
	want := fmt.Sprintf("%d", m/100000000)
	if f := m % 100000000; f != 0 {
		want += "." + strings.TrimRight(fmt.Sprintf("%08d", f), "0")
	}
	if s1 != want {
		o.Add(in, fmt.Sprintf("formatted as %q, shortest plain decimal is %q", s1, want), "format-wrong")
		return
	}
	a, err := api.StringToAmount(s1)
	if err != nil || a.IntValue() != m {
		o.Add(in, fmt.Sprintf("parse(format(x)) = %v,%v", a, err), "roundtrip")
	}
}

// C15 enumerates amount strings and integers.
func C15(op Opts) *Out {
	o := NewOut()
	maxLen := 5
	if op.Tier != "quick" {
		maxLen = 7
	}
	// family 1: all strings up to maxLen over the 12-symbol alphabet
	idx := 0
	var rec func(prefix string, n int)
	rec = func(prefix string, n int) {
		if idx%op.NShards == op.Shard {
			c15CheckParse(o, prefix)
			o.Families["short-strings"]++
			if idx%9973 == 0 {
				o.Sample(prefix)
			}
		}
		idx++
		if n == maxLen {
			return
		}
		for _, c := range c15Alphabet {
			rec(prefix+c, n+1)
		}
	}
	rec("", 0)
	// family 2: <digits>.<digits> with up to 10+10 digits from {0,1,9}
	digs := []string{"0", "1", "9"}
	var parts []string
	var gen func(p string, n int)
	gen = func(p string, n int) {
		parts = append(parts, p)
		if n == 10 {
			return
		}
		for _, d := range digs {
			gen(p+d, n+1)
		}
	}
	maxd := 6
	if op.Tier != "quick" {
		maxd = 8
	}
	var gen2 func(p string, n int)
	gen2 = func(p string, n int) {
		parts = append(parts, p)
		if n == maxd {
			return
		}
		for _, d := range digs {
			gen2(p+d, n+1)
		}
	}
	_ = gen
	gen2("", 0)
	// long structured tails that reach 9 and 10 digits
	extra := []string{"000000000", "000000001", "0000000010", "123456789", "999999999", "1000000000", "2064384000", "0206438400", "206438400", "206438401", "206438399", "99999999", "00000001", "000000010"}
	parts2 := append(append([]string{}, parts...), extra...)
	k := 0
	for _, a := range parts2 {
		for _, b := range parts2 {
			if len(a)+len(b) > 12 && !(contains(extra, a) || contains(extra, b)) {
				continue
			}
			if k%op.NShards == op.Shard {
				c15CheckParse(o, a+"."+b)
				o.Families["digits.digits"]++
			}
			k++
		}
	}
	// family 2b: overflow - integral parts whose product with 10^8 wraps around 2^64 (or 2^63)
	// into or next to the valid range, and decimal strings of 2^63, 2^64 and their neighbours
	if op.Shard == 0 {
		two64 := new(big.Int).Lsh(big.NewInt(1), 64)
		two63 := new(big.Int).Lsh(big.NewInt(1), 63)
		e8 := big.NewInt(100000000)
		for _, modulus := range []*big.Int{two64, two63} {
			for kk := int64(1); kk <= 40; kk++ {
				base := new(big.Int).Mul(big.NewInt(kk), modulus)
				base.Add(base, new(big.Int).Sub(e8, big.NewInt(1)))
				base.Div(base, e8) // ceil(kk*modulus / 1e8)
				for j := int64(-1); j <= 2; j++ {
					v := new(big.Int).Add(base, big.NewInt(j))
					for _, frac := range []string{"", ".5", ".00000001"} {
						c15CheckParse(o, v.String()+frac)
						o.Families["wraparound"]++
					}
				}
			}
			for j := int64(-2); j <= 2; j++ {
				v := new(big.Int).Add(modulus, big.NewInt(j))
				c15CheckParse(o, v.String())
				c15CheckParse(o, "0."+v.String())
				o.Families["wraparound"] += 2
			}
		}
	}
	// family 3: integers
	max := int64(consensus.MaxMass) * 100000000
	var ints []int64
	for m := int64(0); m <= 2000000; m++ {
		ints = append(ints, m)
	}
	p := int64(1)
	for e := 0; e <= 17; e++ {
		for d := int64(1); d <= 9; d++ {
			for _, dd := range []int64{-1, 0, 1} {
				ints = append(ints, d*p+dd)
			}
		}
		p *= 10
	}
	for _, dd := range []int64{-2, -1, 0, 1, 2} {
		ints = append(ints, max+dd)
	}
	ints = append(ints, 1<<62, 1<<63-1, -1, -100000000, -(1 << 62))
	for i, m := range ints {
		if i%op.NShards == op.Shard {
			c15CheckFormat(o, m)
			o.Families["integers"]++
		}
	}
	return o
}

func contains(l []string, s string) bool {
	for _, x := range l {
		if x == s {
			return true
		}
	}
	return false
}
