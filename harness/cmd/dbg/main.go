package main

import (
	"encoding/json"
	"fmt"
	"os"

	"vh/env"
	"vh/world"
)

func main() {
	d, _ := os.MkdirTemp("/dev/shm", "dbg")
	defer os.RemoveAll(d)
	env.Init(d)
	var dumps [][]world.KV
	var vols []string
	for i, a := range os.Args[1:] {
		var h []string
		json.Unmarshal([]byte(a), &h)
		w, err := world.New(fmt.Sprintf("%s/%d", d, i), world.Options{})
		env.Must(err, "world")
		for _, e := range h {
			w.Apply(e)
		}
		dumps = append(dumps, w.RawDump())
		v, _ := json.Marshal(w.I.W.VerifVolatile())
		vols = append(vols, string(v))
		fmt.Println(w.Key(), w.N.Tip().Hash)
	}
	fmt.Println(vols[0] == vols[1])
	if vols[0] != vols[1] {
		fmt.Println(vols[0])
		fmt.Println(vols[1])
	}
	a, b := dumps[0], dumps[1]
	fmt.Println(len(a), len(b))
	for i := 0; i < len(a) && i < len(b); i++ {
		if string(a[i].K) != string(b[i].K) || string(a[i].V) != string(b[i].V) {
			fmt.Printf("diff at %d: %q\n  %x\n  %x\n", i, a[i].K, a[i].V, b[i].V)
		}
	}
}
