package main

import (
	"crypto/sha256"
	"fmt"
	"os"

	"github.com/massnetorg/mass-core/massutil"
	"vh/env"
	"vh/inst"
	"vh/simnode"
)

func main() {
	d, _ := os.MkdirTemp("/dev/shm", "dbg")
	defer os.RemoveAll(d)
	env.Init(d)
	env.SetConsensus(env.Small)
	n, _ := simnode.New(d + "/n")
	i, err := inst.OpenAt(inst.NewMemStore(), n, 20, inst.PubPass, nil)
	env.Must(err, "inst")
	i.W.VerifInitTaskChan()
	W := i.W
	id, _, _, err := W.CreateWallet("privpassA1", "w", 128)
	env.Must(err, "create")
	W.UseWallet(id)
	W.NewAddress(massutil.AddressClassWitnessV0)
	list, _ := W.GetAllAddressesWithPubkey()
	pub := list[0].PubKey
	dg := sha256.Sum256([]byte("x"))
	chk := func(s string) {
		_, _, e1 := W.GetMnemonic(id, "privpassA1")
		_, e2 := W.ExportWallet(id, "privpassA1")
		_, e3 := W.SignHash(pub, dg[:], []byte("privpassA1"))
		fmt.Printf("%-40s getmn=%v export=%v sign=%v\n", s, e1, e2, e3)
	}
	chk("fresh (locked)")
	_, e := W.SignHash(pub, dg[:], []byte("privpassA1"))
	fmt.Println("unlock:", e)
	chk("after unlock")
	for _, wp := range []string{"", "publicpassVerif1", "privpassA1privpassA1", "PRIVPASSA1", " privpassA1", "rivpassA1", "privpassA", "xprivpassA1"} {
		W.SignHash(pub, dg[:], []byte(wp))
		chk("after wrong sign " + wp)
		W.ExportWallet(id, wp)
		chk("after wrong export " + wp)
		W.GetMnemonic(id, wp)
		chk("after wrong getmn " + wp)
		W.RemoveWallet(id, wp)
		chk("after wrong remove " + wp)
		W.ChangePrivPassphrase(wp, "privpassB9")
		chk("after wrong chpriv " + wp)
	}
	_ = e
}
