// vinstr generates the instrumented copies of the wallet sources for the controlled
// scheduler and the overlay file that makes `go build` use them. It is run by vcheck at
// check time on /repo's CURRENT working tree; /repo itself is never modified.
//
//	vinstr <repo> <shim.go source> <outdir>   -> writes <outdir>/overlay.json
//
// Rewrites (purely syntactic, go/ast):
//
//	import "sync"                      -> import sync ".../masswallet/vshim"   (all listed packages)
//	go f(x)                            -> vshim.Go("f", func() { f(x) })
//	close(c)                           -> vshim.Close(c, "c")
//	c <- v  /  x := <-c  /  <-c        -> vshim.BeforeSend/BeforeRecv(c, "c") in front of the statement
//	select { case comm_i: body_i ... } -> switch vshim.Select(hasDefault, label, cases...) { case i: comm_i; body_i ... }
//
// Any channel construct the rewriter does not know makes it fail (exit 2).
package main

import (
	"bytes"
	"encoding/json"
	"fmt"
	"go/ast"
	"go/format"
	"go/parser"
	"go/printer"
	"go/token"
	"os"
	"path/filepath"
	"strconv"
	"strings"
)

const shimPath = "massnet.org/mass-wallet/masswallet/vshim"

// packages whose "sync" import is redirected; files with goroutine/channel rewriting
var syncDirs = []string{"masswallet", "masswallet/keystore", "masswallet/txmgr", "masswallet/db/ldb"}
var chanFiles = map[string]bool{"masswallet/ntfnshandler.go": true, "masswallet/task.go": true, "masswallet/wallet.go": true}

func die(f string, a ...interface{}) {
	fmt.Fprintf(os.Stderr, "HARNESS-ERROR vinstr: "+f+"\n", a...)
	os.Exit(2)
}

var fset = token.NewFileSet()

func src(n ast.Node) string {
	var b bytes.Buffer
	printer.Fprint(&b, fset, n)
	return b.String()
}

var shimUsed bool

func call(fn string, args ...ast.Expr) *ast.CallExpr {
	shimUsed = true
	return &ast.CallExpr{Fun: &ast.SelectorExpr{X: ast.NewIdent("vshim"), Sel: ast.NewIdent(fn)}, Args: args}
}

func lit(s string) ast.Expr { return &ast.BasicLit{Kind: token.STRING, Value: strconv.Quote(s)} }

// recvChan returns the channel expression if e is `<-ch`.
func recvChan(e ast.Expr) ast.Expr {
	if u, ok := e.(*ast.UnaryExpr); ok && u.Op == token.ARROW {
		return u.X
	}
	return nil
}

// gateFor returns the gate statement needed in front of s (nil if none).
func gateFor(s ast.Stmt) ast.Stmt {
	switch x := s.(type) {
	case *ast.SendStmt:
		return &ast.ExprStmt{X: call("BeforeSend", x.Chan, lit(src(x.Chan)))}
	case *ast.ExprStmt:
		if ch := recvChan(x.X); ch != nil {
			return &ast.ExprStmt{X: call("BeforeRecv", ch, lit(src(ch)))}
		}
	case *ast.AssignStmt:
		if len(x.Rhs) == 1 {
			if ch := recvChan(x.Rhs[0]); ch != nil {
				return &ast.ExprStmt{X: call("BeforeRecv", ch, lit(src(ch)))}
			}
		}
	}
	return nil
}

type rewriter struct {
	file    string
	handled map[ast.Node]bool
}

func (r *rewriter) stmts(list []ast.Stmt) []ast.Stmt {
	var out []ast.Stmt
	for _, s := range list {
		switch x := s.(type) {
		case *ast.GoStmt:
			name := src(x.Call.Fun)
			fl := &ast.FuncLit{Type: &ast.FuncType{Params: &ast.FieldList{}}, Body: &ast.BlockStmt{List: []ast.Stmt{&ast.ExprStmt{X: x.Call}}}}
			out = append(out, &ast.ExprStmt{X: call("Go", lit(name), fl)})
			continue
		case *ast.ExprStmt:
			if c, ok := x.X.(*ast.CallExpr); ok {
				if id, ok := c.Fun.(*ast.Ident); ok && id.Name == "close" && len(c.Args) == 1 {
					out = append(out, &ast.ExprStmt{X: call("Close", c.Args[0], lit(src(c.Args[0])))})
					continue
				}
			}
		case *ast.SelectStmt:
			out = append(out, r.selectStmt(x))
			continue
		case *ast.RangeStmt:
			// range over a channel cannot be recognised syntactically; none of the
			// instrumented files ranges over a channel field (checked by name below)
		}
		if g := gateFor(s); g != nil {
			out = append(out, g)
			r.mark(s)
		}
		r.descend(s)
		out = append(out, s)
	}
	return out
}

func (r *rewriter) mark(s ast.Stmt) {
	ast.Inspect(s, func(n ast.Node) bool {
		if u, ok := n.(*ast.UnaryExpr); ok && u.Op == token.ARROW {
			r.handled[u] = true
		}
		if ss, ok := n.(*ast.SendStmt); ok {
			r.handled[ss] = true
		}
		return true
	})
}

// descend rewrites nested statement lists.
func (r *rewriter) descend(s ast.Stmt) {
	switch x := s.(type) {
	case *ast.BlockStmt:
		x.List = r.stmts(x.List)
	case *ast.IfStmt:
		x.Body.List = r.stmts(x.Body.List)
		if x.Else != nil {
			r.descend(x.Else)
		}
	case *ast.ForStmt:
		x.Body.List = r.stmts(x.Body.List)
	case *ast.RangeStmt:
		x.Body.List = r.stmts(x.Body.List)
	case *ast.SwitchStmt:
		for _, c := range x.Body.List {
			cc := c.(*ast.CaseClause)
			cc.Body = r.stmts(cc.Body)
		}
	case *ast.TypeSwitchStmt:
		for _, c := range x.Body.List {
			cc := c.(*ast.CaseClause)
			cc.Body = r.stmts(cc.Body)
		}
	case *ast.LabeledStmt:
		r.descend(x.Stmt)
	case *ast.DeferStmt:
		if fl, ok := x.Call.Fun.(*ast.FuncLit); ok {
			fl.Body.List = r.stmts(fl.Body.List)
		}
	case *ast.ExprStmt, *ast.AssignStmt, *ast.ReturnStmt, *ast.DeclStmt, *ast.GoStmt:
		// function literals inside expressions
		ast.Inspect(s, func(n ast.Node) bool {
			if fl, ok := n.(*ast.FuncLit); ok {
				fl.Body.List = r.stmts(fl.Body.List)
				return false
			}
			return true
		})
	}
}

func (r *rewriter) selectStmt(sel *ast.SelectStmt) ast.Stmt {
	var cases []ast.Expr
	hasDefault := false
	sw := &ast.SwitchStmt{Body: &ast.BlockStmt{}}
	idx := 0
	var labels []string
	for _, c := range sel.Body.List {
		cc := c.(*ast.CommClause)
		if cc.Comm == nil {
			hasDefault = true
			sw.Body.List = append(sw.Body.List, &ast.CaseClause{List: []ast.Expr{&ast.UnaryExpr{Op: token.SUB, X: &ast.BasicLit{Kind: token.INT, Value: "1"}}}, Body: r.stmts(cc.Body)})
			continue
		}
		var ch ast.Expr
		send := false
		switch x := cc.Comm.(type) {
		case *ast.SendStmt:
			ch, send = x.Chan, true
		case *ast.ExprStmt:
			ch = recvChan(x.X)
		case *ast.AssignStmt:
			if len(x.Rhs) == 1 {
				ch = recvChan(x.Rhs[0])
			}
		}
		if ch == nil {
			die("%s: unsupported select communication %q", r.file, src(cc.Comm))
		}
		r.mark(cc.Comm)
		labels = append(labels, src(ch))
		sendLit := "false"
		if send {
			sendLit = "true"
		}
		cases = append(cases, &ast.CompositeLit{Type: &ast.SelectorExpr{X: ast.NewIdent("vshim"), Sel: ast.NewIdent("Case")},
			Elts: []ast.Expr{&ast.KeyValueExpr{Key: ast.NewIdent("Send"), Value: ast.NewIdent(sendLit)}, &ast.KeyValueExpr{Key: ast.NewIdent("Ch"), Value: ch}}})
		body := append([]ast.Stmt{cc.Comm}, r.stmts(cc.Body)...)
		sw.Body.List = append(sw.Body.List, &ast.CaseClause{List: []ast.Expr{&ast.BasicLit{Kind: token.INT, Value: strconv.Itoa(idx)}}, Body: body})
		idx++
	}
	hd := "false"
	if hasDefault {
		hd = "true"
	}
	args := append([]ast.Expr{ast.NewIdent(hd), lit("select[" + strings.Join(labels, ",") + "]")}, cases...)
	sw.Tag = call("Select", args...)
	return sw
}

// extraSrc maps repository files to substituted sources (VINSTR_EXTRA): a file that is both
// substituted and instrumented is instrumented FROM its substitute.
var extraSrc = map[string]string{}

func process(repo, rel string, rewriteChans bool) ([]byte, bool) {
	path := filepath.Join(repo, rel)
	if alt, ok := extraSrc[path]; ok {
		path = alt
	}
	f, err := parser.ParseFile(fset, path, nil, parser.ParseComments)
	if err != nil {
		die("parse %s: %v", rel, err)
	}
	// build constraints: skip files that are not part of the verif build
	changed := false
	hasSync := false
	for _, im := range f.Imports {
		if im.Path.Value == `"sync"` {
			im.Path.Value = strconv.Quote(shimPath)
			im.Name = ast.NewIdent("sync")
			changed, hasSync = true, true
		}
	}
	_ = hasSync
	if rewriteChans {
		shimUsed = false
		r := &rewriter{file: rel, handled: map[ast.Node]bool{}}
		for _, d := range f.Decls {
			if fd, ok := d.(*ast.FuncDecl); ok && fd.Body != nil {
				fd.Body.List = r.stmts(fd.Body.List)
			}
		}
		// every channel operation must have been handled
		ast.Inspect(f, func(n ast.Node) bool {
			switch x := n.(type) {
			case *ast.UnaryExpr:
				if x.Op == token.ARROW && !r.handled[x] {
					die("%s: channel receive in an unsupported position: %s", rel, src(x))
				}
			case *ast.SendStmt:
				if !r.handled[x] {
					die("%s: channel send in an unsupported position: %s", rel, src(x))
				}
			case *ast.SelectStmt:
				die("%s: select statement left unrewritten", rel)
			case *ast.GoStmt:
				die("%s: go statement left unrewritten: %s", rel, src(x))
			}
			return true
		})
		// add the vshim import
		if !shimUsed {
			goto emit
		}
		spec := &ast.ImportSpec{Name: ast.NewIdent("vshim"), Path: &ast.BasicLit{Kind: token.STRING, Value: strconv.Quote(shimPath)}}
		for _, d := range f.Decls {
			if gd, ok := d.(*ast.GenDecl); ok && gd.Tok == token.IMPORT {
				gd.Specs = append(gd.Specs, spec)
				break
			}
		}
		changed = true
	}
emit:
	if !changed {
		return nil, false
	}
	var b bytes.Buffer
	if err := printer.Fprint(&b, fset, f); err != nil {
		die("print %s: %v", rel, err)
	}
	out, err := format.Source(b.Bytes())
	if err != nil {
		die("format %s: %v\n%s", rel, err, b.String())
	}
	return out, true
}

func main() {
	if len(os.Args) != 4 {
		die("usage: vinstr <repo> <shim source> <outdir>")
	}
	repo, shim, out := os.Args[1], os.Args[2], os.Args[3]
	os.MkdirAll(out, 0o755)
	if extra := os.Getenv("VINSTR_EXTRA"); extra != "" {
		if err := json.Unmarshal([]byte(extra), &extraSrc); err != nil {
			die("VINSTR_EXTRA: %v", err)
		}
	}
	replace := map[string]string{}
	n := 0
	for _, dir := range syncDirs {
		ents, err := os.ReadDir(filepath.Join(repo, dir))
		if err != nil {
			die("%v", err)
		}
		for _, e := range ents {
			name := e.Name()
			if e.IsDir() || !strings.HasSuffix(name, ".go") || strings.HasSuffix(name, "_test.go") {
				continue
			}
			rel := filepath.Join(dir, name)
			b, changed := process(repo, rel, chanFiles[rel])
			if !changed {
				continue
			}
			dst := filepath.Join(out, fmt.Sprintf("f%d_%s", n, name))
			n++
			if err := os.WriteFile(dst, b, 0o644); err != nil {
				die("%v", err)
			}
			replace[filepath.Join(repo, rel)] = dst
		}
	}
	sb, err := os.ReadFile(shim)
	if err != nil {
		die("%v", err)
	}
	sdst := filepath.Join(out, "shim.go")
	os.WriteFile(sdst, sb, 0o644)
	replace[filepath.Join(repo, "masswallet/vshim/shim.go")] = sdst
	// extra replacements (performance overlay etc.) passed through the environment
	if extra := os.Getenv("VINSTR_EXTRA"); extra != "" {
		var m map[string]string
		if err := json.Unmarshal([]byte(extra), &m); err == nil {
			for k, v := range m {
				if _, taken := replace[k]; !taken {
					replace[k] = v
				}
			}
		}
	}
	ob, _ := json.MarshalIndent(map[string]interface{}{"Replace": replace}, "", " ")
	if err := os.WriteFile(filepath.Join(out, "overlay.json"), ob, 0o644); err != nil {
		die("%v", err)
	}
	fmt.Printf("vinstr: %d files instrumented\n", n)
}
