package main

import (
	"fmt"
	"os"
	"time"

	"github.com/massnetorg/mass-core/massutil"
	"github.com/massnetorg/mass-core/txscript"
	"massnet.org/mass-wallet/config"
	"vh/env"
	"vh/inst"
	"vh/simnode"
)

func main() {
	dir, _ := os.MkdirTemp("/dev/shm", "vh-smoke")
	defer os.RemoveAll(dir)
	env.Init(dir)
	env.SetConsensus(env.Small)
	env.SeedRand("smoke")
	t0 := time.Now()
	n, err := simnode.New(dir + "/n")
	env.Must(err, "node")
	i, err := inst.Open(dir+"/w", n, 3, inst.PubPass, nil)
	env.Must(err, "inst")
	fmt.Println("open", time.Since(t0))
	id, mn, _, err := i.W.CreateWallet("privpassA1", "A", 128)
	env.Must(err, "create")
	fmt.Println(id, mn)
	_, err = i.W.UseWallet(id)
	env.Must(err, "use")
	a0, err := i.W.NewAddress(massutil.AddressClassWitnessV0)
	env.Must(err, "newaddr")
	addr, _ := massutil.DecodeAddress(a0, config.ChainParams)
	pk, _ := txscript.PayToAddrScript(addr)
	for k := 0; k < 5; k++ {
		t1 := time.Now()
		_, err = n.Extend(nil2(n.CoinbaseTx(n.Height()+1, pk, 100000000)))
		env.Must(err, "extend")
		nt, _ := n.Pop()
		err = i.W.VerifProcessBlock(nt.Block)
		fmt.Println("process", err, time.Since(t1))
	}
	env.Must(n.SelfCheck(), "selfcheck")
	wb, err := i.W.WalletBalance(1, true)
	fmt.Println(wb, err)
	u, err := i.W.GetUtxo(nil)
	for a, l := range u {
		for _, x := range l {
			fmt.Println(a, *x)
		}
	}
	fmt.Println(i.W.SyncedTo())
	fmt.Println("fatals", env.TakeFatals())
}

func nil2(tx ...interface{}) []*wireTx { return conv(tx) }
