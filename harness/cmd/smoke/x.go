package main

import "github.com/massnetorg/mass-core/wire"

type wireTx = wire.MsgTx

func conv(l []interface{}) []*wire.MsgTx {
	var r []*wire.MsgTx
	for _, x := range l {
		r = append(r, x.(*wire.MsgTx))
	}
	return r
}
