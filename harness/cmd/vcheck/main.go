// vcheck is the entry point of every registered check: it rebuilds the worker binary
// from /repo's current working tree (build tag verif), runs the property's exploration
// over worker processes, writes /verif/evidence/<id>.json and reports violations.
//
//	vcheck <ID> [--tier quick|thorough] [--replay file] [--workers N]
//
// exit 0: property held on everything explored (KNOWN-FINDING lines possible)
// exit 1: VIOLATION property=<id> replay=<path>
// exit 2: HARNESS-ERROR (build or instrumentation failure; never a violation)
package main

import (
	"encoding/json"
	"fmt"
	"os"
	"os/exec"
	"path/filepath"
	"sort"
	"strconv"
	"strings"
	"time"
)

type runCtx struct {
	ID      string
	Tier    string
	Seed    int
	Root    string // /verif
	Scratch string
	Bin     string // plain worker binary (tag verif)
	Workers int
	Args    map[string]string
	// Overlays describes the source substitutions applied to the build (perfOverlay)
	Overlays     []string
	OverlayFiles map[string]string
}

type evidence struct {
	PropertyID  string                 `json:"property_id"`
	Tier        string                 `json:"tier"`
	Seed        int                    `json:"seed"`
	Level       string                 `json:"level"`
	Coverage    map[string]interface{} `json:"coverage"`
	Assumptions []string               `json:"assumptions"`
	WallS       float64                `json:"wall_s"`
	Violations  int                    `json:"violations"`
}

type checkDef struct {
	Level string
	Run   func(c *runCtx) (cov map[string]interface{}, assumptions []string, viols []violation, err error)
	// Replay re-executes one replay file and prints what happens.
	Replay func(c *runCtx, file string) error
}

var checks = map[string]*checkDef{}

type finding struct {
	Property string `json:"property"`
	Tag      string `json:"tag"`
	Status   string `json:"status"` // "open" or "fixed"
	Commit   string `json:"commit,omitempty"`
	What     string `json:"what"`
}

func loadFindings(root string) []finding {
	var f struct {
		Findings []finding `json:"findings"`
	}
	b, err := os.ReadFile(filepath.Join(root, "known_findings.json"))
	if err != nil {
		return nil
	}
	if err := json.Unmarshal(b, &f); err != nil {
		harnessErr("known_findings.json: %v", err)
	}
	return f.Findings
}

// openTags returns the tags of the open findings of a property.
func openTags(c *runCtx) map[string]bool {
	m := map[string]bool{}
	for _, f := range loadFindings(c.Root) {
		if f.Property == c.ID && f.Status == "open" {
			m[f.Tag] = true
		}
	}
	return m
}

func harnessErr(f string, a ...interface{}) {
	fmt.Printf("HARNESS-ERROR "+f+"\n", a...)
	os.Exit(2)
}

// repoDir is the repository the checks build: /repo, unless VERIF_REPO names a snapshot of
// it (background runs started with `vp run --with-repo`, which must not see edits made to
// /repo while they run). The harness module's replace directive is pointed at it.
func repoDir() string {
	if r := os.Getenv("VERIF_REPO"); r != "" {
		return r
	}
	return "/repo"
}

func pointModuleAtRepo(c *runCtx) error {
	if repoDir() == "/repo" {
		return nil
	}
	cmd := exec.Command("go", "mod", "edit", "-replace", "massnet.org/mass-wallet="+repoDir())
	cmd.Dir = filepath.Join(c.Root, "harness")
	cmd.Env = goEnv()
	if b, err := cmd.CombinedOutput(); err != nil {
		return fmt.Errorf("go mod edit: %v\n%s", err, b)
	}
	return nil
}

func goEnv() []string {
	e := os.Environ()
	e = append(e, "GOFLAGS=-mod=mod", "GOPROXY=off", "GOSUMDB=off", "GOTOOLCHAIN=local")
	return e
}

// perfOverlay returns go build -overlay arguments for two source substitutions generated
// from the CURRENT tree (if a pattern is not found that file is built unchanged and the
// fact is recorded in the evidence under coverage.build_overlays):
//
//  1. keystore/snacl: the debug.FreeOSMemory() call (a forced GC + scavenge after every key
//     derivation, which dominates the cost of thousands of short-lived instances and has no
//     observable semantics) is neutralised;
//  2. txmgr/utxostore.go removeRelevantCredit: the number of credits one removal round
//     deletes, the literal 20000, is scaled to 2 - like the consensus constants - so that
//     removals of small wallets take several rounds and the commits between rounds become
//     crash points / restart points (C06, C08, C18, C20).
func perfOverlay(c *runCtx) []string {
	type sub struct{ file, old, new, what string }
	subs := []sub{
		{repoDir() + "/masswallet/keystore/snacl/snacl.go", "\tdebug.FreeOSMemory()\n", "\t_ = debug.FreeOSMemory\n", "snacl: FreeOSMemory neutralised"},
		{repoDir() + "/masswallet/txmgr/utxostore.go", "count >= 20000", "count >= 2", "utxostore: credits per removal round scaled 20000 -> 2"},
		// 3. asyncImport: the heights per rescan batch, the literal 1000, read from the hook
		//    variable masswallet.VerifImportBatch (default 1000: nothing changes unless a
		//    scenario sets it), so that short chains need several batches (C20, C07).
		{repoDir() + "/masswallet/ntfnshandler.go", "stop = ws.SyncedHeight + 1000\n", "stop = ws.SyncedHeight + VerifImportBatch\n", "asyncImport: heights per rescan batch read from masswallet.VerifImportBatch (default 1000)"},
	}
	repl := map[string]string{}
	c.Overlays = nil
	for i, sb := range subs {
		b, err := os.ReadFile(sb.file)
		if err != nil || strings.Count(string(b), sb.old) != 1 {
			c.Overlays = append(c.Overlays, sb.what+": NOT APPLIED (pattern not found in the current tree)")
			continue
		}
		dst := filepath.Join(c.Scratch, fmt.Sprintf("overlay_%d.go", i))
		os.WriteFile(dst, []byte(strings.Replace(string(b), sb.old, sb.new, 1)), 0o644)
		repl[sb.file] = dst
		c.Overlays = append(c.Overlays, sb.what)
	}
	if len(repl) == 0 {
		return nil
	}
	c.OverlayFiles = repl
	ob, _ := json.Marshal(map[string]interface{}{"Replace": repl})
	op := filepath.Join(c.Scratch, "overlay_perf.json")
	os.WriteFile(op, ob, 0o644)
	return []string{"-overlay", op}
}

// buildWorker compiles the worker from the current /repo tree.
func buildWorker(c *runCtx, out string, extra ...string) error {
	args := []string{"build", "-tags", "verif"}
	if len(extra) == 0 {
		args = append(args, perfOverlay(c)...)
	}
	args = append(args, extra...)
	args = append(args, "-o", out, "./cmd/vworker")
	cmd := exec.Command("go", args...)
	cmd.Dir = filepath.Join(c.Root, "harness")
	cmd.Env = goEnv()
	b, err := cmd.CombinedOutput()
	if err != nil {
		return fmt.Errorf("go build failed: %v\n%s", err, string(b))
	}
	return nil
}

func main() {
	if len(os.Args) < 2 {
		harnessErr("usage: vcheck <ID> [--tier quick|thorough] [--replay file]")
	}
	c := &runCtx{ID: os.Args[1], Tier: "quick", Workers: 16, Args: map[string]string{}}
	if t := os.Getenv("VERIF_TIER"); t == "quick" || t == "thorough" {
		c.Tier = t
	}
	if s := os.Getenv("VERIF_SEED"); s != "" {
		c.Seed, _ = strconv.Atoi(s)
	}
	replay := ""
	for i := 2; i < len(os.Args); i++ {
		a := os.Args[i]
		switch a {
		case "--tier":
			i++
			c.Tier = os.Args[i]
		case "--replay":
			i++
			replay = os.Args[i]
		case "--workers":
			i++
			c.Workers, _ = strconv.Atoi(os.Args[i])
		default:
			if strings.HasPrefix(a, "--") && i+1 < len(os.Args) {
				c.Args[a[2:]] = os.Args[i+1]
				i++
			}
		}
	}
	c.Root = os.Getenv("VERIF_ROOT")
	if c.Root == "" {
		c.Root = "/verif"
	}
	def, ok := checks[c.ID]
	if !ok {
		harnessErr("unknown check %s", c.ID)
	}
	base := "/dev/shm"
	if _, err := os.Stat(base); err != nil {
		base = os.TempDir()
	}
	scratch, err := os.MkdirTemp(base, "vcheck-"+c.ID+"-")
	if err != nil {
		harnessErr("scratch: %v", err)
	}
	c.Scratch = scratch
	code := 0
	func() {
		defer os.RemoveAll(scratch)
		c.Bin = filepath.Join(scratch, "vworker")
		t0 := time.Now()
		if err := pointModuleAtRepo(c); err != nil {
			fmt.Printf("HARNESS-ERROR %v\n", err)
			code = 2
			return
		}
		if err := buildWorker(c, c.Bin); err != nil {
			fmt.Printf("HARNESS-ERROR %v\n", err)
			code = 2
			return
		}
		fmt.Fprintf(os.Stderr, "built worker in %.1fs\n", time.Since(t0).Seconds())
		if replay != "" {
			if def.Replay == nil {
				fmt.Println("HARNESS-ERROR no replay for this check")
				code = 2
				return
			}
			if err := def.Replay(c, replay); err != nil {
				fmt.Printf("HARNESS-ERROR replay: %v\n", err)
				code = 2
			}
			return
		}
		t1 := time.Now()
		cov, assumptions, viols, err := def.Run(c)
		if err != nil {
			fmt.Printf("HARNESS-ERROR %v\n", err)
			code = 2
			return
		}
		// classify violations against the committed known-findings file
		open := map[string]finding{}
		for _, f := range loadFindings(c.Root) {
			if f.Property == c.ID && f.Status == "open" {
				open[f.Tag] = f
			}
		}
		knownSeen := map[string]int{}
		var fresh []violation
		for _, v := range viols {
			// a violation is a known finding only if EVERY pattern tag the harness computed
			// for it is listed as open; anything else is a different violation
			matched := ""
			for _, t := range v.Known {
				if _, ok := open[t]; ok {
					if matched == "" {
						matched = t
					}
				} else {
					matched = ""
					break
				}
			}
			if matched != "" {
				knownSeen[matched]++
			} else {
				fresh = append(fresh, v)
			}
		}
		var tags []string
		for t := range knownSeen {
			tags = append(tags, t)
		}
		sort.Strings(tags)
		for _, t := range tags {
			fmt.Printf("KNOWN-FINDING: property=%s %s [%s] (%d counterexamples this run)\n", c.ID, open[t].What, t, knownSeen[t])
		}
		cov["known_findings_matched"] = knownSeen
		cov["build_overlays"] = c.Overlays
		ev := evidence{PropertyID: c.ID, Tier: c.Tier, Seed: c.Seed, Level: def.Level, Coverage: cov,
			Assumptions: assumptions, WallS: time.Since(t1).Seconds(), Violations: len(fresh)}
		os.MkdirAll(filepath.Join(c.Root, "evidence"), 0o755)
		b, _ := json.MarshalIndent(ev, "", " ")
		if err := os.WriteFile(filepath.Join(c.Root, "evidence", c.ID+".json"), b, 0o644); err != nil {
			fmt.Printf("HARNESS-ERROR write evidence: %v\n", err)
			code = 2
			return
		}
		if len(fresh) > 0 {
			dir := filepath.Join(c.Root, "replays", c.ID)
			os.MkdirAll(dir, 0o755)
			max := len(fresh)
			if max > 5 {
				max = 5
			}
			for i := 0; i < max; i++ {
				p := filepath.Join(dir, fmt.Sprintf("%s-%s-%d.json", c.ID, c.Tier, i))
				rb, _ := json.MarshalIndent(map[string]interface{}{"property": c.ID, "tier": c.Tier, "violation": fresh[i]}, "", " ")
				os.WriteFile(p, rb, 0o644)
				fmt.Printf("VIOLATION property=%s replay=%s\n", c.ID, p)
				for _, s := range fresh[i].Viol {
					fmt.Printf("    %s\n", s)
				}
			}
			if len(fresh) > max {
				fmt.Printf("    (+%d more violating states)\n", len(fresh)-max)
			}
			code = 1
			return
		}
		fmt.Printf("OK property=%s tier=%s wall=%.1fs\n", c.ID, c.Tier, time.Since(t1).Seconds())
	}()
	os.Exit(code)
}

func bfsCoverage(o *bfsOut, rule string) map[string]interface{} {
	var samples []interface{}
	for _, s := range o.Samples {
		samples = append(samples, s)
	}
	return map[string]interface{}{
		"states":                        o.States,
		"transitions":                   o.Transitions,
		"traces_validated_against_impl": o.Transitions,
		"evaluations":                   o.Transitions + 1,
		"distinct_nontrivial":           len(o.Outcomes),
		"rule":                          rule,
		"samples":                       samples,
		"exhaustive":                    o.Exhaustive,
		"depth_completed":               o.DepthDone,
		"cap_hit":                       o.CapHit,
		"quiescent_states":              o.Quiescent,
		"distinct_outcomes":             len(o.Outcomes),
		"per_event_transitions":         o.PerEvent,
		"new_states_per_depth":          o.PerLevel,
		"frontier_states_at_bound":      o.FrontierAtBound,
		"info":                          o.Info,
	}
}
