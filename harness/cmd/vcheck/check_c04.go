package main

import (
	"fmt"
	"strings"
	"time"
)

// C04 and C05 share one state space (model c04); each check keeps the violations that
// concern its own property.
func c04Check(prop, rule string, assumptions []string) *checkDef {
	return &checkDef{
		Level: "model_checking",
		Run: func(c *runCtx) (map[string]interface{}, []string, []violation, error) {
			depth, dl := 5, 170*time.Second
			opts := map[string]interface{}{"max_inst": 3, "max_addr": 2, "prop": prop}
			if c.Tier == "thorough" {
				depth, dl = 7, 25*time.Minute
				opts = map[string]interface{}{"max_inst": 3, "max_addr": 3, "prop": prop}
			}
			if d, ok := c.Args["depth"]; ok {
				fmt.Sscan(d, &depth)
			}
			out, err := runBFS(c.Bin, c.Scratch, bfsCfg{Model: "c04", Opts: opts, Depth: depth, Workers: c.Workers, Deadline: dl, Recycle: 300, OpenTags: openTags(c)})
			if err != nil {
				return nil, nil, nil, err
			}
			var mine []violation
			for _, v := range out.Violations {
				var keep []string
				for _, s := range v.Viol {
					if strings.HasPrefix(s, prop+":") {
						keep = append(keep, s)
					}
				}
				if len(keep) > 0 {
					v.Viol = keep
					mine = append(mine, v)
				}
			}
			cov := bfsCoverage(out, rule)
			cov["bounds"] = map[string]interface{}{"depth": depth, "opts": opts, "entropy_sizes": []int{128, 160, 192, 224, 256}}
			return cov, assumptions, mine, nil
		},
		Replay: func(c *runCtx, file string) error {
			return replayBFS(c, "c04", file, func(t string) interface{} { return map[string]interface{}{"max_inst": 3, "max_addr": 3} })
		},
	}
}

func init() {
	space := "explicit-state BFS over sequences of {create(5 entropy sizes), new standard/staking address, sign with every held key, export keystore, import keystore into a fresh instance, " +
		"import mnemonic (hint 0 / current count) into a fresh instance, restart, change public passphrase} across up to three wallet instances; states deduplicated by instance shapes (address counts and classes, lock state, public passphrase, export) "
	checks["C04"] = c04Check("C04", space+
		"oracle: every instance holds the same wallet id and, at every index, the address of an independent BIP-39/BIP-32/script derivation; every NewAddress result equals the derived address of that index and class; "+
		"every held address commits to the public key the wallet reports and a signature made with the right passphrase verifies under it (before and after an unlock, i.e. for keys derived from public and from private material); distinct_nontrivial = distinct instance-shape outcomes",
		[]string{"for seeds hit by the C14 finding (short scalar on the hardened path) only cross-instance equality is required", "scrypt N=2, deterministic randomness; node at genesis"})
	checks["C05"] = c04Check("C05", space+
		"oracle: in every state, before and after an unlock, sign/export/reveal-mnemonic/remove/change-passphrase are refused for ~60 wrong passphrases (empty, every 1-edit neighbour of the right one, the public passphrases, another legal one, case/space variants), "+
		"refused attempts leave the raw database unchanged and the right passphrase keeps working; the raw key/value content of every instance database, every exported keystore and every error string are scanned for the mnemonic (whole and any 4 consecutive words), "+
		"entropy, BIP-39 seed, master/purpose/coin/account/branch extended private keys and raw scalars, the first 8 address private keys and the private passphrase (raw, hex); distinct_nontrivial = distinct instance-shape outcomes",
		[]string{"secrets are searched in raw, lower- and upper-case hex form; other encodings are not searched", "the secret list is computed by the harness's own derivation from the mnemonic"})
}
