package main

import (
	"io"
	"os"
)

func os_stderr() io.Writer { return os.Stderr }
