package main

import (
	"encoding/json"
	"fmt"
	"os"
	"os/exec"
	"time"
)

func c01Opts(tier string) (map[string]interface{}, int, time.Duration) {
	if tier == "thorough" {
		return map[string]interface{}{"max_reorg": 3, "max_queue": 3, "max_height": 8}, 7, 25 * time.Minute
	}
	return map[string]interface{}{"max_reorg": 2, "max_queue": 2, "max_height": 6}, 6, 170 * time.Second
}

func init() {
	checks["C01"] = &checkDef{
		Level: "model_checking",
		Run: func(c *runCtx) (map[string]interface{}, []string, []violation, error) {
			opts, depth, dl := c01Opts(c.Tier)
			if d, ok := c.Args["depth"]; ok {
				fmt.Sscan(d, &depth)
			}
			out, err := runBFS(c.Bin, c.Scratch, bfsCfg{Model: "c01", Opts: opts, Depth: depth, Workers: c.Workers, Deadline: dl})
			if err != nil {
				return nil, nil, nil, err
			}
			cov := bfsCoverage(out, "explicit-state BFS over histories of {deliver, extend(12 block templates), reorg(depth k, 4 branch patterns)} events; "+
				"every transition replays the history on a fresh real wallet over a real chain DB; states deduplicated by hash of chain tree + queue + "+
				"normalised wallet DB dump + handler volatile state; in every state the queue is drained and all public ledger queries are compared with "+
				"the reference ledger of the best chain; distinct_nontrivial = distinct drained observations")
			cov["bounds"] = map[string]interface{}{"depth": depth, "opts": opts}
			return cov, []string{
				"chain DB and consensus library (mass-core) trusted as environment and as maturity oracle",
				"consensus constants scaled (coinbase maturity 3, min frozen period 2, warm-up height 5, binding lock 3)",
				"PoC validity of blocks out of scope (wallet does not check it); scrypt N=2; deterministic crypto/rand",
				"Go map iteration order not controlled",
			}, out.Violations, nil
		},
		Replay: func(c *runCtx, file string) error {
			return replayBFS(c, "c01", file, func(t string) interface{} { o, _, _ := c01Opts(t); return o })
		},
	}
}

// replayBFS re-executes the history stored in a replay file without the explorer.
func replayBFS(c *runCtx, model, file string, opts func(tier string) interface{}) error {
	b, err := os.ReadFile(file)
	if err != nil {
		return err
	}
	var rf struct {
		Tier      string    `json:"tier"`
		Violation violation `json:"violation"`
	}
	if err := json.Unmarshal(b, &rf); err != nil {
		return err
	}
	ob, _ := json.Marshal(opts(rf.Tier))
	if rf.Violation.Opts != nil {
		ob, _ = json.Marshal(rf.Violation.Opts) // the options of the pass that found it
	}
	for _, e := range rf.Violation.Hist {
		if len(e) > 0 && e[0] == '#' {
			// a crash / fault history (second pass of a check): the fault model replays it
			model = "c06"
			if rf.Violation.Opts == nil {
				ob = []byte("{}")
			}
		}
	}
	hb, _ := json.Marshal(rf.Violation.Hist)
	cmd := exec.Command(c.Bin, "replay", model, string(ob), string(hb))
	cmd.Stdout = os.Stdout
	cmd.Stderr = os.Stderr
	return cmd.Run()
}
