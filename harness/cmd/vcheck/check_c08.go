package main

import (
	"fmt"
	"time"
)

func init() {
	checks["C08"] = &checkDef{
		Level: "model_checking",
		Run: func(c *runCtx) (map[string]interface{}, []string, []violation, error) {
			opts := map[string]interface{}{"remove": true, "templates": []string{"e", "ca", "ab", "ch", "sa", "a2b"}, "patterns": []string{"E", "R"}, "max_reorg": 1, "max_queue": 1, "max_height": 6}
			depth, dl := 8, 170*time.Second
			if c.Tier == "thorough" {
				opts = map[string]interface{}{"remove": true, "import": true, "relay": true, "relay_templates": []string{"sp", "in"}, "pending_blocks": []string{"cp"},
					"templates": []string{"e", "ca", "ab", "ch", "sa", "a2b", "st"}, "patterns": []string{"E", "R"}, "max_reorg": 2, "max_queue": 2, "max_height": 8, "max_relay": 2}
				depth, dl = 7, 25*time.Minute
			}
			if d, ok := c.Args["depth"]; ok {
				fmt.Sscan(d, &depth)
			}
			out, err := runBFS(c.Bin, c.Scratch, bfsCfg{Model: "c01", Opts: opts, Depth: depth, Workers: c.Workers, Deadline: dl, Recycle: 150, OpenTags: openTags(c)})
			if err != nil {
				return nil, nil, nil, err
			}
			cov := bfsCoverage(out, "explicit-state BFS over histories of two wallets A and B in one manager: {deliver, extend(empty, coinbase to A, one transaction paying A and B, in-block chain A->B, spend by A), reorg, "+
				"RemoveWallet(B) (API call), background removal run (real asyncRemove, both phases), restart between any two of them, re-import of B's mnemonic} (thorough adds pending transactions, staking deposits, deeper reorgs and an importing third wallet); "+
				"while B is ready RemoveWallet with 4 wrong passphrases must be refused; in every state pending work is completed and then: Wallets() omits B, the raw database (every bucket, incl. keystore) contains neither B's wallet id nor any of its script hashes or encoded addresses, "+
				"and wallet A's coins, balances and address grouping still equal the reference ledger (C01 oracle), also for transactions that paid or spent both wallets; after a re-import B converges to the reference again; distinct_nontrivial = distinct completed observations")
			cov["bounds"] = map[string]interface{}{"depth": depth, "opts": opts}
			// the removed wallet holds PENDING records (unconfirmed staking / binding deposits, an
			// unconfirmed payment) when it is removed
			popts := map[string]interface{}{"remove": true, "relay": true, "relay_templates": []string{"sb", "bb", "in"}, "pending_blocks": []string{"cp"},
				"templates": []string{"e", "ab"}, "patterns": []string{"E"}, "max_reorg": 1, "max_queue": 1, "max_height": 5, "max_relay": 2}
			pend, err := runBFS(c.Bin, c.Scratch, bfsCfg{Model: "c01", Opts: popts, Depth: map[bool]int{false: 5, true: 7}[c.Tier == "thorough"], Workers: c.Workers, Deadline: dl, Recycle: 150, OpenTags: openTags(c)})
			if err != nil {
				return nil, nil, nil, err
			}
			cov["pending_records_pass"] = map[string]interface{}{"states": pend.States, "transitions": pend.Transitions, "depth_completed": pend.DepthDone, "exhaustive": pend.Exhaustive, "opts": popts}
			out.Violations = append(out.Violations, pend.Violations...)
			// "a restart between any two removal steps": every commit inside the removal (phase 1,
			// each phase-2 round, the final round) is a stop point; the wallet is restarted through
			// the real start-up path and the worker must finish the removal by itself
			ropts := map[string]interface{}{"remove": true, "templates": []string{"e", "ab", "a2b", "ch"}, "patterns": []string{"E"}, "max_reorg": 1, "max_queue": 1, "max_height": 5}
			rdepth := 5
			if c.Tier == "thorough" {
				rdepth = 7
			}
			rcov, rviols, err := faultEnum(c, "crash", ropts, rdepth, 0, []int{1}, dl)
			if err != nil {
				return nil, nil, nil, err
			}
			cov["restart_between_steps_pass"] = rcov
			if e, _ := rcov["exhaustive"].(bool); !e {
				cov["exhaustive"] = false
			}
			if n, ok := rcov["evaluations"].(int); ok {
				if t, ok := cov["traces_validated_against_impl"].(int); ok {
					cov["traces_validated_against_impl"] = t + n
				}
			}
			return cov, []string{
				"in the history pass the removal runs as one step (phase 1 and all phase-2 rounds of the real asyncRemove); stop points INSIDE it are covered by the restart_between_steps pass (stop before commit k of every base history, restart through the real start-up path, worker resumes)",
				"one removal round deletes 20 000 credits in production; the build overlay scales this literal to 2 (coverage.build_overlays) so that small wallets need several rounds",
				"survivor's ability to build and sign transactions is covered by C02/C03 states, not re-checked here",
			}, append(out.Violations, rviols...), nil
		},
		Replay: func(c *runCtx, file string) error {
			return replayBFS(c, "c01", file, func(t string) interface{} {
				return map[string]interface{}{"remove": true, "import": true, "relay": true, "relay_templates": []string{"sp", "in"}, "pending_blocks": []string{"cp"},
					"templates": []string{"e", "ca", "ab", "ch", "sa", "a2b", "st"}, "patterns": []string{"E", "R"}, "max_reorg": 2, "max_queue": 2, "max_height": 8, "max_relay": 2}
			})
		},
	}
}
