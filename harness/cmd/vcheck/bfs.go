package main

import (
	"bufio"
	"crypto/sha256"
	"encoding/hex"
	"encoding/json"
	"fmt"
	"os"
	"os/exec"
	"sort"
	"strings"
	"sync"
	"time"

	"vh/proto"
)

// bfsCfg configures one explicit-state search.
type bfsCfg struct {
	Model    string
	Opts     interface{}
	Depth    int
	Workers  int
	Deadline time.Duration
	Recycle  int // tasks per worker process before it is restarted
	// Roots are the start histories (default: the empty history). Non-initial start
	// states are given as fixed prefixes that are not counted in the depth.
	Roots [][]string
	// OpenTags are the known-finding tags listed as open: a state whose violation carries
	// one of them is recorded (and reported as KNOWN-FINDING) but still expanded, so that a
	// recorded defect does not hide the state space behind it.
	OpenTags map[string]bool
	// CollectHists keeps the (shortest) history of every new state in bfsOut.Hists.
	CollectHists bool
}

type violation struct {
	Hist   []string    `json:"hist"`
	Viol   []string    `json:"viol"`
	Known  []string    `json:"known,omitempty"`
	Detail interface{} `json:"detail,omitempty"`
	// Opts are the model options of the pass that found the violation (used by --replay)
	Opts interface{} `json:"opts,omitempty"`
}

type bfsOut struct {
	States, Transitions, Quiescent int
	DepthDone                      int
	Exhaustive                     bool
	CapHit                         string
	PerEvent                       map[string]int
	Outcomes                       map[string]int
	Violations                     []violation
	Samples                        [][]string
	FrontierAtBound                int
	Info                           map[string]int
	PerLevel                       []int
	Hists                          [][]string
}

type workerProc struct {
	cmd  *exec.Cmd
	in   *json.Encoder
	inW  *bufio.Writer
	out  *json.Decoder
	n    int
	dir  string
	kill func()
}

func startWorker(bin, model string, opts interface{}, scratch string, idx int) (*workerProc, error) {
	ob, _ := json.Marshal(opts)
	dir := fmt.Sprintf("%s/w%d-%d", scratch, idx, time.Now().UnixNano())
	os.MkdirAll(dir, 0o755)
	cmd := exec.Command(bin, "serve", model, string(ob))
	cmd.Env = append(os.Environ(), "VH_SCRATCH="+dir, "GOMAXPROCS=2")
	cmd.Stderr = os.Stderr
	stdin, err := cmd.StdinPipe()
	if err != nil {
		return nil, err
	}
	stdout, err := cmd.StdoutPipe()
	if err != nil {
		return nil, err
	}
	if err := cmd.Start(); err != nil {
		return nil, err
	}
	w := bufio.NewWriter(stdin)
	wp := &workerProc{cmd: cmd, in: json.NewEncoder(w), inW: w, out: json.NewDecoder(bufio.NewReaderSize(stdout, 1<<20)), dir: dir}
	wp.kill = func() {
		stdin.Close()
		done := make(chan struct{})
		go func() { cmd.Wait(); close(done) }()
		select {
		case <-done:
		case <-time.After(5 * time.Second):
			cmd.Process.Kill()
			<-done
		}
		os.RemoveAll(dir)
	}
	return wp, nil
}

func (w *workerProc) run(t proto.Task) (*proto.Result, error) {
	if err := w.in.Encode(t); err != nil {
		return nil, err
	}
	if err := w.inW.Flush(); err != nil {
		return nil, err
	}
	var r proto.Result
	done := make(chan error, 1)
	go func() { done <- w.out.Decode(&r) }()
	select {
	case err := <-done:
		if err != nil {
			return nil, fmt.Errorf("worker died: %v", err)
		}
	case <-time.After(histTimeout):
		// A worker replays one history single-threadedly on a fresh instance; that takes
		// milliseconds to a few seconds. No answer for minutes means the replay blocks for ever
		// inside the code under test (a lock that is never released, a hand-shake nobody
		// answers): the wallet would hang at this point. The worker is killed and replaced.
		w.cmd.Process.Kill()
		<-done
		w.n = 1 << 30 // recycled before the next task
		kh := sha256.Sum256([]byte(strings.Join(t.Hist, ",")))
		return &proto.Result{Viol: []string{fmt.Sprintf("replaying this history does not return (no answer for %s): the code under test blocks for ever", histTimeout)},
			KnownTags: []string{"hang"}, Key: "hang:" + hex.EncodeToString(kh[:12]), Outcome: "hang", Info: map[string]int{"hangs": 1}}, nil
	}
	w.n++
	return &r, nil
}

// histTimeout bounds the replay of ONE history by one worker (see workerProc.run).
const histTimeout = 300 * time.Second

// runBFS performs a level-synchronous breadth-first search. The parent owns the seen-set
// and the frontier; every transition is executed by a worker that replays the history on
// a fresh instance of the real code.
func runBFS(bin, scratch string, c bfsCfg) (*bfsOut, error) {
	if c.Workers <= 0 {
		c.Workers = 16
	}
	if c.Recycle <= 0 {
		c.Recycle = 400
	}
	out := &bfsOut{PerEvent: map[string]int{}, Outcomes: map[string]int{}, Info: map[string]int{}, Exhaustive: true}
	seen := map[string]bool{}
	violSeen := map[string]bool{}
	level := c.Roots
	if len(level) == 0 {
		level = [][]string{{}}
	}
	rootLen := map[int]int{}
	_ = rootLen
	start := time.Now()
	type job struct {
		idx  int
		hist []string
	}
	hangs := 0
	const maxHangs = 2
	pool := make([]*workerProc, c.Workers)
	defer func() {
		for _, wp := range pool {
			if wp != nil {
				wp.kill()
			}
		}
	}()
	for depth := 0; ; depth++ {
		if len(level) == 0 {
			break
		}
		results := make([]*proto.Result, len(level))
		jobs := make(chan job, len(level))
		for i, h := range level {
			jobs <- job{i, h}
		}
		close(jobs)
		var wg sync.WaitGroup
		var mu sync.Mutex
		var firstErr error
		timedOut := false
		nw := c.Workers
		if nw > len(level) {
			nw = len(level)
		}
		for wi := 0; wi < nw; wi++ {
			wg.Add(1)
			go func(wi int) {
				defer wg.Done()
				wp := pool[wi]
				var err error
				if wp == nil {
					wp, err = startWorker(bin, c.Model, c.Opts, scratch, wi)
					if err != nil {
						mu.Lock()
						firstErr = err
						mu.Unlock()
						return
					}
					pool[wi] = wp
				}
				for j := range jobs {
					mu.Lock()
					stop := firstErr != nil || timedOut
					mu.Unlock()
					if stop {
						continue
					}
					if c.Deadline > 0 && time.Since(start) > c.Deadline {
						mu.Lock()
						timedOut = true
						mu.Unlock()
						continue
					}
					if wp.n >= c.Recycle {
						wp.kill()
						pool[wi] = nil
						wp, err = startWorker(bin, c.Model, c.Opts, scratch, wi)
						if err != nil {
							mu.Lock()
							firstErr = err
							mu.Unlock()
							return
						}
						pool[wi] = wp
					}
					r, err := wp.run(proto.Task{ID: j.idx, Hist: j.hist})
					if err != nil {
						mu.Lock()
						firstErr = fmt.Errorf("history %v: %v", j.hist, err)
						mu.Unlock()
						return
					}
					results[j.idx] = r
					if r.Outcome == "hang" {
						mu.Lock()
						hangs++
						if hangs >= maxHangs {
							timedOut = true // every further hang costs histTimeout: stop here
						}
						mu.Unlock()
					}
				}
			}(wi)
		}
		wg.Wait()
		if firstErr != nil {
			return nil, firstErr
		}
		if timedOut {
			out.Exhaustive = false
			out.CapHit = fmt.Sprintf("deadline %s hit while exploring depth %d; depths < %d complete", c.Deadline, depth, depth)
			if hangs >= maxHangs {
				out.CapHit = fmt.Sprintf("stopped at depth %d after %d histories whose replay never returned; depths < %d complete", depth, hangs, depth)
			}
			// the level is incomplete, but a violation seen in it is a violation all the same
			for i, r := range results {
				if r == nil {
					continue
				}
				if r.Err != "" {
					return nil, fmt.Errorf("harness error on history %v: %s", level[i], r.Err)
				}
				out.Transitions++
				if len(r.Viol) > 0 {
					vk := r.Key + "|" + strings.Join(r.Viol, "|")
					if !violSeen[vk] {
						violSeen[vk] = true
						out.Violations = append(out.Violations, violation{Hist: level[i], Viol: r.Viol, Known: r.KnownTags, Detail: r.Detail, Opts: c.Opts})
					}
				}
			}
			break
		}
		var next [][]string
		newStates := 0
		for i, r := range results {
			h := level[i]
			if r.Err != "" {
				return nil, fmt.Errorf("harness error on history %v: %s", h, r.Err)
			}
			if depth > 0 {
				out.Transitions++
				out.PerEvent[evClass(h[len(h)-1])]++
			}
			if seen[r.Key] {
				// a transition into a known state is still a checked transition: its oracle
				// verdict counts (the state key need not capture what the oracle observed, e.g.
				// a key computed from the reference model)
				if len(r.Viol) > 0 {
					vk := r.Key + "|" + strings.Join(r.Viol, "|")
					if !violSeen[vk] {
						violSeen[vk] = true
						out.Violations = append(out.Violations, violation{Hist: h, Viol: r.Viol, Known: r.KnownTags, Detail: r.Detail, Opts: c.Opts})
					}
				}
				continue
			}
			seen[r.Key] = true
			newStates++
			out.States++
			out.Outcomes[r.Outcome]++
			if c.CollectHists {
				out.Hists = append(out.Hists, h)
			}
			if r.Quiescent {
				out.Quiescent++
			}
			for k, v := range r.Info {
				out.Info[k] += v
			}
			if len(out.Samples) < 6 && (depth >= 2 || c.Depth < 2) && i%7 == 0 {
				out.Samples = append(out.Samples, h)
			}
			if len(r.Viol) > 0 {
				violSeen[r.Key+"|"+strings.Join(r.Viol, "|")] = true
				out.Violations = append(out.Violations, violation{Hist: h, Viol: r.Viol, Known: r.KnownTags, Detail: r.Detail, Opts: c.Opts})
				known := len(r.KnownTags) > 0
				for _, t := range r.KnownTags {
					if !c.OpenTags[t] {
						known = false
					}
				}
				if !known {
					continue // everything below a violating state is tainted
				}
			}
			if depth < c.Depth {
				for _, e := range r.Succ {
					nh := make([]string, len(h)+1)
					copy(nh, h)
					nh[len(h)] = e
					next = append(next, nh)
				}
			} else {
				out.FrontierAtBound++
			}
		}
		out.PerLevel = append(out.PerLevel, newStates)
		out.DepthDone = depth
		fmt.Fprintf(os.Stderr, "  depth %d: %d histories, %d new states (total %d states, %d transitions, %d violations) %.1fs\n",
			depth, len(level), newStates, out.States, out.Transitions, len(out.Violations), time.Since(start).Seconds())
		level = next
		if depth >= c.Depth {
			break
		}
	}
	if len(out.Samples) == 0 {
		out.Samples = append(out.Samples, []string{})
	}
	return out, nil
}

func evClass(e string) string {
	p := strings.Split(e, ".")
	if len(p) >= 2 {
		return p[0] + "." + p[1]
	}
	return p[0]
}

func sortedKeys(m map[string]int) []string {
	var k []string
	for x := range m {
		k = append(k, x)
	}
	sort.Strings(k)
	return k
}

// runTasks executes independent tasks (histories) on a pool of worker processes and returns
// the results in task order.
func runTasks(bin, scratch, model string, opts interface{}, tasks [][]string, workers, recycle int, deadline time.Time) ([]*proto.Result, bool, error) {
	if workers <= 0 {
		workers = 16
	}
	if recycle <= 0 {
		recycle = 300
	}
	results := make([]*proto.Result, len(tasks))
	type job struct {
		idx  int
		hist []string
	}
	jobs := make(chan job, len(tasks))
	for i, h := range tasks {
		jobs <- job{i, h}
	}
	close(jobs)
	var wg sync.WaitGroup
	var mu sync.Mutex
	var firstErr error
	timedOut := false
	hangs := 0
	if workers > len(tasks) {
		workers = len(tasks)
	}
	for wi := 0; wi < workers; wi++ {
		wg.Add(1)
		go func(wi int) {
			defer wg.Done()
			var wp *workerProc
			defer func() {
				if wp != nil {
					wp.kill()
				}
			}()
			for j := range jobs {
				mu.Lock()
				stop := firstErr != nil || timedOut
				mu.Unlock()
				if stop {
					continue
				}
				if !deadline.IsZero() && time.Now().After(deadline) {
					mu.Lock()
					timedOut = true
					mu.Unlock()
					continue
				}
				if wp == nil || wp.n >= recycle {
					if wp != nil {
						wp.kill()
					}
					var err error
					wp, err = startWorker(bin, model, opts, scratch, 100+wi)
					if err != nil {
						mu.Lock()
						firstErr = err
						mu.Unlock()
						return
					}
				}
				r, err := wp.run(proto.Task{ID: j.idx, Hist: j.hist})
				if err != nil {
					mu.Lock()
					firstErr = fmt.Errorf("task %v: %v", j.hist, err)
					mu.Unlock()
					return
				}
				results[j.idx] = r
				if r.Outcome == "hang" {
					mu.Lock()
					hangs++
					if hangs >= 2 {
						timedOut = true // every further hang costs histTimeout: stop here
					}
					mu.Unlock()
				}
			}
		}(wi)
	}
	wg.Wait()
	return results, timedOut, firstErr
}
