package main

import (
	"encoding/json"
	"fmt"
	"os"
	"os/exec"
	"path/filepath"
	"strings"
)

func listScenarios(bin, job string) ([]string, error) {
	cmd := exec.Command(bin, "job", job, `{"list":true}`)
	cmd.Stderr = os.Stderr
	b, err := cmd.Output()
	if err != nil {
		return nil, err
	}
	var names []string
	if err := json.Unmarshal(b, &names); err != nil {
		return nil, err
	}
	return names, nil
}

func init() {
	checks["C20"] = &checkDef{
		Level: "model_checking",
		Run: func(c *runCtx) (map[string]interface{}, []string, []violation, error) {
			bin := filepath.Join(c.Scratch, "vworker-instr")
			if err := buildInstrumented(c, bin, false); err != nil {
				return nil, nil, nil, err
			}
			names, err := listScenarios(bin, "c20")
			if err != nil {
				return nil, nil, nil, err
			}
			bounds, fastBounds, secs := []int{0, 1}, []int{2}, 100
			if c.Tier == "thorough" {
				bounds, fastBounds, secs = []int{0, 1, 2}, []int{2, 3}, 600
			}
			// scenarios that need the rescan-batch overlay are left out (and named in the
			// evidence) when the current tree does not contain the line the overlay rewrites
			batchOverlay := false
			for _, o := range c.Overlays {
				if strings.HasPrefix(o, "asyncImport:") && !strings.Contains(o, "NOT APPLIED") {
					batchOverlay = true
				}
			}
			var skipped []string
			for i, n := range names {
				if strings.Contains(n, "[batch]") && !batchOverlay {
					skipped = append(skipped, n)
					names[i] = ""
				}
				if strings.Contains(n, "[deep]") && c.Tier != "thorough" {
					names[i] = ""
				}
			}
			if only := c.Args["only"]; only != "" { // development aid: vcheck C20 --only <substring>
				for i, n := range names {
					if !strings.Contains(n, only) {
						names[i] = ""
					}
				}
			}
			boundsFor := func(name string) []int {
				if strings.Contains(name, "[fast]") {
					return fastBounds
				}
				return bounds
			}
			sums, viols, samples, err := runSchedB(c, bin, "c20", names, boundsFor, 8, secs)
			if err != nil {
				return nil, nil, nil, err
			}
			execs, points, distinct := 0, 0, 0
			exhaustive := true
			doneBound := map[string]int{}
			for _, s := range sums {
				execs += s.Executions
				points += s.Points
				distinct += len(s.Outcomes)
				if !s.Exhaustive {
					exhaustive = false
				} else if s.Bound > doneBound[s.Scenario] {
					doneBound[s.Scenario] = s.Bound
				}
			}
			var smp []interface{}
			for _, s := range samples {
				smp = append(smp, s)
			}
			cov := map[string]interface{}{
				"states":                        points,
				"transitions":                   points,
				"schedules":                     execs,
				"traces_validated_against_impl": execs,
				"evaluations":                   execs,
				"distinct_nontrivial":           distinct,
				"exhaustive":                    exhaustive,
				"per_scenario":                  sums,
				"highest_bound_completed":       doneBound,
				"scenarios_skipped_no_overlay":  skipped,
				"samples":                       smp,
				"rule": "stateless depth-first exploration with iterative preemption bounding over a cooperative controlled scheduler on the INSTRUMENTED REAL code " +
					"(go build -overlay: \"sync\" -> scheduler shim in masswallet, keystore, txmgr, db/ldb; go/close/send/recv/select rewritten in ntfnshandler.go, task.go, wallet.go). " +
					"Threads: start-up, follower handle(), background worker(), a node thread announcing 0-2 tips, an API thread starting an import or a removal (or the task is resumed from a restart), the stop request. " +
					"Scheduling points: every Lock/RLock/Wait/send/recv/select/close/go. Every execution runs to completion; oracle per execution: no deadlock (no enabled thread while some thread is parked outside its idle select), " +
					"no abnormal thread end, no livelock (horizon 4000 steps), with stop: stop returns, every thread has ended and the wallet database was closed exactly once; without stop: at quiescence no queued tip/tx/task is left, " +
					"the accepted task finished and the query surface equals the reference ledger. The default schedule is replayed twice per shard and must give identical traces (determinism self-test); a divergence while replaying a prefix is a hard error.",
			}
			return cov, []string{
				"memory-model effects the cooperative scheduler cannot show (unsynchronised accesses) are left to the separate free-running -race pass of C17",
				"an API call that keeps running after the stop sequence closed the database is counted (api_after_close) but not reported: loader.UnloadWallet stops the API server before the wallet manager",
				"[batch] scenarios: one rescan batch covers 1 height (overlay + hook variable), so an import of a 3-4 block chain takes 3-4 batches and is queued again between them; [fast] scenarios: preemptions at channel operations, wait groups and blocking locks only, explored at a higher preemption bound",
				fmt.Sprintf("preemption bounds explored: %v (fast scenarios: %v); a scenario whose exploration hit the time cap is reported with exhaustive=false and the bound completed below it", bounds, fastBounds),
			}, viols, nil
		},
		Replay: func(c *runCtx, file string) error { return replaySched(c, "c20", file) },
	}
}
