package main

import (
	"encoding/json"
	"fmt"
	"os"
	"os/exec"
	"sort"
	"sync"

	"vh/proto"
)

// runEnum runs all shards of an enumeration job in parallel worker processes and merges.
func runEnum(c *runCtx, job string, shards int) (*proto.EnumOut, error) {
	outs := make([]*proto.EnumOut, shards)
	errs := make([]error, shards)
	var wg sync.WaitGroup
	sem := make(chan struct{}, c.Workers)
	for i := 0; i < shards; i++ {
		wg.Add(1)
		go func(i int) {
			defer wg.Done()
			sem <- struct{}{}
			defer func() { <-sem }()
			// the registered quick tier runs the families the enumerations call "thorough" (they
			// take seconds); the registered thorough tier adds the "deep" families
			et := map[string]string{"quick": "thorough", "thorough": "deep"}[c.Tier]
			ob, _ := json.Marshal(proto.EnumOpts{Shard: i, NShards: shards, Tier: et})
			cmd := exec.Command(c.Bin, "job", job, string(ob))
			dir := fmt.Sprintf("%s/e%d", c.Scratch, i)
			os.MkdirAll(dir, 0o755)
			cmd.Env = append(os.Environ(), "VH_SCRATCH="+dir, "GOMAXPROCS=2")
			cmd.Stderr = os.Stderr
			b, err := cmd.Output()
			if err != nil {
				errs[i] = fmt.Errorf("shard %d: %v", i, err)
				return
			}
			var o proto.EnumOut
			if err := json.Unmarshal(b, &o); err != nil {
				errs[i] = fmt.Errorf("shard %d output: %v", i, err)
				return
			}
			outs[i] = &o
		}(i)
	}
	wg.Wait()
	for _, e := range errs {
		if e != nil {
			return nil, e
		}
	}
	m := proto.NewEnumOut()
	for _, o := range outs {
		m.Evaluations += o.Evaluations
		m.Nontrivial += o.Nontrivial
		m.ViolCount += o.ViolCount
		for k, v := range o.Classes {
			m.Classes[k] += v
		}
		for k, v := range o.Families {
			m.Families[k] += v
		}
		m.Viols = append(m.Viols, o.Viols...)
		for _, s := range o.Samples {
			if len(m.Samples) < 12 {
				m.Samples = append(m.Samples, s)
			}
		}
	}
	sort.Slice(m.Viols, func(i, j int) bool {
		if len(m.Viols[i].Input) != len(m.Viols[j].Input) {
			return len(m.Viols[i].Input) < len(m.Viols[j].Input)
		}
		return m.Viols[i].Input < m.Viols[j].Input
	})
	return m, nil
}

// enumCheck wraps an enumeration as a registered check.
func enumCheck(job, rule string, assumptions []string) *checkDef {
	return &checkDef{
		Level: "model_checking",
		Run: func(c *runCtx) (map[string]interface{}, []string, []violation, error) {
			o, err := runEnum(c, job, 16)
			if err != nil {
				return nil, nil, nil, err
			}
			var samples []interface{}
			for _, s := range o.Samples {
				samples = append(samples, s)
			}
			cov := map[string]interface{}{
				"evaluations":         o.Evaluations,
				"distinct_nontrivial": o.Nontrivial,
				"rule":                rule,
				"samples":             samples,
				"exhaustive":          true,
				"families":            o.Families,
				"reference_classes":   o.Classes,
				"violating_inputs":    o.ViolCount,
				"explanation":         "bounded-exhaustive: the input families named in 'rule' are enumerated completely (no sampling) and each member is compared with an independent reference",
			}
			// group violations by first tag so that each pattern is reported once
			byTag := map[string]*violation{}
			var order []string
			for _, v := range o.Viols {
				t := "untagged"
				if len(v.Tags) > 0 {
					t = v.Tags[0]
				}
				if byTag[t] == nil {
					byTag[t] = &violation{Hist: []string{}, Known: v.Tags}
					order = append(order, t)
				}
				x := byTag[t]
				if len(x.Hist) < 10 {
					x.Hist = append(x.Hist, v.Input)
					x.Viol = append(x.Viol, v.Input+": "+v.Msg)
				}
			}
			var viols []violation
			for _, t := range order {
				viols = append(viols, *byTag[t])
			}
			return cov, assumptions, viols, nil
		},
		Replay: func(c *runCtx, file string) error {
			b, err := os.ReadFile(file)
			if err != nil {
				return err
			}
			fmt.Println("inputs of this enumeration are self-contained; the failing inputs are listed in the file:")
			fmt.Println(string(b))
			return nil
		},
	}
}

func init() {
	checks["C15"] = enumCheck("c15",
		"all strings of length <=7 over the 12 symbols {0,1,5,9,.,+,-,e,_,space,NUL,U+0663}; all <digits>.<digits> with parts over {0,1,9} up to 8 digits plus 14 boundary tails (9-10 digits, supply limit +-1); integers 0..2e6, d*10^k+-1 for d=1..9,k=0..17, supply limit +-2, MaxInt64 and negatives; reference = exact decimal arithmetic on strings (math/big); non-trivial = input containing both a digit and a non-digit (parse) or a non-zero fraction (format)",
		[]string{"open forms \"\", \".\", \".5\", \"5.\" may be rejected or read at their natural value (C15 leaves them open)", "small-scope claim over the listed families, not over all strings"})
}

func init() {
	checks["C13"] = enumCheck("c13",
		"entropies of the five legal sizes: all-zero, all-ones, every leading-zero run, every placement of one byte from {01,7f,80,ff} and of two such bytes; the thorough tier adds every value of every single byte position on three backgrounds and the full 65536 sweep of the last two bytes per size; seeds for every 11th entropy x 9 passphrases (empty, ASCII, NFKD-sensitive, and six with white space at either end or inside); negative family: per size 3 base mnemonics x (6 substitutions per position, adjacent transpositions, every truncation, extensions, 7 re-spacings); reference = independent bit-slicing encoder/decoder + own PBKDF2-HMAC-SHA512, validated against BIP-39 vectors 1 and 2 and the SHA-256 of the official english.txt; non-trivial = entropy with a leading zero byte or non-zero content, and every mutated sequence",
		[]string{"IsMnemonicValid is only required to reject wrong lengths and non-list words (its documented contract); checksum acceptance is judged on EntropyFromMnemonic/MnemonicToByteArray/NewSeedWithErrorChecking",
			"sentences re-spaced with white space only (double blanks, tabs, newlines, CRLF, leading/trailing blanks) are word sequences like any other: they must be accepted with the right entropy; other separators (comma) make non-list words",
			"small-scope claim over the listed families, not over all 2^256 entropies"})
}

func init() {
	checks["C14"] = enumCheck("c14",
		"masters from structured seeds of 16/32/64 bytes (all-zero, all-ff, one byte from {01,80,ff} at every position, BIP-32 vector seeds) x all paths over indexes {0,1,2^31-1,2^31,2^31+1} to depth 3: private key, public key, chain code, depth, fingerprint, serialisation, neuter-commutes, parse(serialise)=id and equal behaviour of the parsed key; parents whose scalar has leading zero bytes reached deliberately by searching child indexes with the reference (12 per parent) and deriving their hardened and non-hardened children; every single-character corruption (3 alternatives), truncation and extension of a serialised xprv and xpub; crafted serialisations with valid checksum and out-of-range/off-curve key material; reference = independent CKDpriv/CKDpub with padded ser256 validated against BIP-32 vectors 1-3; non-trivial = derivations from a short-scalar parent and all corruptions",
		[]string{"btcec is trusted for curve arithmetic", "small-scope claim over the listed families"})
}

func init() {
	checks["C16"] = enumCheck("c16",
		"all scripts of <=5 items over a 27-item alphabet (OP_0, OP_1, OP_2, OP_RETURN, OP_CHECKMULTISIG, OP_CHECKSEQUENCEVERIFY, OP_DROP, OP_1NEGATE, pushes of 32/31/33/20/22 bytes incl. valid, Chia, unknown-type and oversize binding targets, 8-byte frozen periods min/max/0/max+1/2^64-1, a 33-byte pubkey, a non-minimal PUSHDATA1 push, truncated pushes); every single-byte mutation (6 mutators per position), truncation and 6 one-byte extensions of 21 valid templates (3 hashes x {standard, staking x3 periods, binding x3 targets}); builders read back for 3 hashes x 5 frozen periods x 3 targets; oracle = txscript.GetScriptClass/ExtractPkScriptAddrs and an independent field decode; every call under recover(); non-trivial = scripts consensus classifies as one of the three wallet templates",
		[]string{"where consensus itself cannot encode an address of a template (unknown binding target type) the wallet is only required not to panic and not to accept", "small-scope claim over the listed families"})
}
