package main

import (
	"time"
)

func init() {
	checks["C19"] = &checkDef{
		Level: "model_checking",
		Run: func(c *runCtx) (map[string]interface{}, []string, []violation, error) {
			cap, dl, deep := 20000, 280*time.Second, true
			if c.Tier == "thorough" {
				cap, dl, deep = 60000, 40*time.Minute, true
			}
			out, err := runBFS(c.Bin, c.Scratch, bfsCfg{Model: "c19", Opts: map[string]interface{}{"cap": cap, "deep": deep}, Depth: 2, Workers: c.Workers, Deadline: dl, Recycle: 30, OpenTags: openTags(c)})
			if err != nil {
				return nil, nil, nil, err
			}
			cov := bfsCoverage(out, "states x methods x requests: 23 (the 9 named below + the selected wallet removed, the withdrawal of a staking and of a binding deposit reorganised away, wallet lagging behind queued tips, lagging behind a node-side reorg, pending incoming payment, after a completed removal, after an import batch, restart with coins, extra addresses, pending spend whose conflict confirmed, binding and staking withdrawn, a relayed (policy-invalid, stress input) binding output with a target of unknown type) reachable wallet states; per-method request cap 20000 (quick) / 60000 (thorough) (selected-empty, not-selected after restart, with mature coins, pending spend, spent coin, importing, removing, after reorg, staking+binding coins) x every APIServer method taking a request (28; 11 node-only methods excluded, see assumptions) x the FULL product of small per-field domains "+
				"derived from the request type by reflection (ids: own/other/unknown/empty/short/over-long; txids: unspent/spent/pending/unknown/non-hex/empty/short; indexes 0/1/5/2^32-1; amounts 1/0/1e-8/supply/huge/-1/abc/empty/9 significant decimals/9-10 decimals with trailing zeros/trailing dot/leading dot/exponent/blank/sign/hex/comma/full-width digit; addresses own/second/foreign/staking/stranger/garbage/empty/over-long; 6 sighash flags + 2 invalid; passphrases right/other/empty/short/long/wrong; hex blobs valid/truncated/empty/odd/non-hex/zeros; maps and lists empty/1/2/duplicate/garbage/nil element), "+
				"largest domains trimmed until the product is <= the cap; every call under recover() with FATAL-exit trapping, then a liveness probe of the follower; plus 12 malformed relayed transactions per state; a state here is one (wallet state, method) pair, a transition its complete request product (info.calls)")
			cov["bounds"] = map[string]interface{}{"cap_per_method_and_state": cap}
			return cov, []string{
				"excluded node-only methods: GetNetworkBinding, CheckPoolPkCoinbase, CheckTargetBinding, CreatePoolPkCoinbaseTransaction (need the node's binding-state database), GetBlockStakingReward, SendRawTransaction, GetClientStatus (node consensus state / mempool / p2p), QuitClient and server lifecycle",
				"deliverable blocks with unsupported output scripts are covered by the C01 alphabet (template nd)",
			}, out.Violations, nil
		},
		Replay: func(c *runCtx, file string) error {
			return replayBFS(c, "c19", file, func(t string) interface{} { return map[string]interface{}{"cap": 1500, "deep": true} })
		},
	}
}
