package main

import (
	"fmt"
	"time"
)

func c11Opts(tier string) (map[string]interface{}, int, time.Duration) {
	if tier == "thorough" {
		return map[string]interface{}{"max_tx": 3, "max_ops": 4}, 12, 25 * time.Minute
	}
	return map[string]interface{}{"max_tx": 2, "max_ops": 4}, 7, 170 * time.Second
}

func init() {
	checks["C11"] = &checkDef{
		Level: "model_checking",
		Run: func(c *runCtx) (map[string]interface{}, []string, []violation, error) {
			opts, depth, dl := c11Opts(c.Tier)
			if d, ok := c.Args["depth"]; ok {
				fmt.Sscan(d, &depth)
			}
			out, err := runBFS(c.Bin, c.Scratch, bfsCfg{Model: "c11", Opts: opts, Depth: depth, Workers: c.Workers, Deadline: dl, Recycle: 5000, OpenTags: openTags(c)})
			if err != nil {
				return nil, nil, nil, err
			}
			cov := bfsCoverage(out, "explicit-state BFS over sequences of wallet-database operations on the real ldb backend: begin/commit/rollback, close+reopen, db.Update with commit and with a failing closure, "+
				"create top-level bucket, NewBucket/DeleteBucket of a nested bucket, Put/Delete over 5 keys (incl. one containing the path separator, 0xff, and a 0xff-suffixed key) x 2 values in 3 buckets (one of them a sibling whose name starts with the other's name), empty key/value, Clear; "+
				"after every sequence every bucket is read back completely (Get incl. foreign keys, GetByPrefix x6, BucketNames, 8 iterator ranges (incl. a 0xff-suffixed prefix), 5 Seeks) through the open write transaction and through a fresh read transaction "+
				"and compared with a nested-map reference; states deduplicated by (committed model, transaction view, dirty set, budgets); distinct_nontrivial = distinct (committed, in-transaction) contents")
			cov["bounds"] = map[string]interface{}{"depth": depth, "opts": opts}
			// a second, small pass over the real on-disk CreateDB/OpenDB path (128 MiB write buffer)
			disk, err := runBFS(c.Bin, c.Scratch, bfsCfg{Model: "c11", Opts: map[string]interface{}{"max_tx": 2, "max_ops": 1, "disk": true}, Depth: 4, Workers: 4, Deadline: 60 * time.Second, Recycle: 200, OpenTags: openTags(c)})
			if err != nil {
				return nil, nil, nil, err
			}
			cov["on_disk_pass"] = map[string]interface{}{"states": disk.States, "transitions": disk.Transitions, "depth_completed": disk.DepthDone, "exhaustive": disk.Exhaustive}
			// large transactions: thousands of operations in one write transaction (beyond any
			// internal batch or buffer threshold) must be just as atomic, isolated and readable
			bulkN := map[bool][]int{false: {5000}, true: {5000, 70000}}[c.Tier == "thorough"]
			var bulkCov []interface{}
			for _, n := range bulkN {
				bo := map[string]interface{}{"max_tx": 2, "max_ops": 3, "bulk": n}
				bk, err := runBFS(c.Bin, c.Scratch, bfsCfg{Model: "c11", Opts: bo, Depth: 6, Workers: c.Workers, Deadline: dl, Recycle: 50, OpenTags: openTags(c)})
				if err != nil {
					return nil, nil, nil, err
				}
				bulkCov = append(bulkCov, map[string]interface{}{"keys_per_bulk_operation": n, "states": bk.States, "transitions": bk.Transitions, "depth_completed": bk.DepthDone, "exhaustive": bk.Exhaustive, "per_event_transitions": bk.PerEvent})
				disk.Violations = append(disk.Violations, bk.Violations...)
			}
			cov["large_transaction_pass"] = bulkCov
			// three more domains, each a separate pass (see models/c11 setVariant)
			for _, v := range []struct {
				name        string
				quick, deep int
				opts        map[string]interface{}
			}{
				{"deep", 7, 9, map[string]interface{}{"max_tx": 2, "max_ops": 4, "variant": "deep"}},
				{"encoding", 6, 8, map[string]interface{}{"max_tx": 2, "max_ops": 3, "variant": "encoding"}},
				{"reader", 8, 10, map[string]interface{}{"max_tx": 3, "max_ops": 2, "variant": "reader"}},
			} {
				d := v.quick
				if c.Tier == "thorough" {
					d = v.deep
				}
				vo, err := runBFS(c.Bin, c.Scratch, bfsCfg{Model: "c11", Opts: v.opts, Depth: d, Workers: c.Workers, Deadline: dl, Recycle: 5000, OpenTags: openTags(c)})
				if err != nil {
					return nil, nil, nil, err
				}
				cov[v.name+"_pass"] = map[string]interface{}{"states": vo.States, "transitions": vo.Transitions, "depth_completed": vo.DepthDone, "exhaustive": vo.Exhaustive, "distinct_outcomes": len(vo.Outcomes), "info": vo.Info, "opts": v.opts}
				disk.Violations = append(disk.Violations, vo.Violations...)
			}
			return cov, []string{
				"iteration order of uncommitted data inside a dirty write transaction is observed (info.dirty_iteration_differs_from_merged_view) but not required: C11 specifies iteration for committed entries",
				"goleveldb trusted; the large pass runs over goleveldb's in-memory storage (reopen = close + recover from the same storage), the small pass over the real directory-backed CreateDB/OpenDB",
			}, append(out.Violations, disk.Violations...), nil
		},
		Replay: func(c *runCtx, file string) error {
			return replayBFS(c, "c11", file, func(t string) interface{} { o, _, _ := c11Opts(t); return o })
		},
	}
}
