package main

import (
	"fmt"
	"time"
)

func c09Opts(tier string) (map[string]interface{}, int, time.Duration) {
	base := map[string]interface{}{
		"relay": true, "templates": []string{"e", "ca", "pa", "sa"}, "patterns": []string{"E", "R", "D"},
		"max_reorg": 2, "max_queue": 2, "max_height": 6, "max_relay": 3, "no_b": true, "restart": true,
	}
	if tier == "thorough" {
		base["max_queue"] = 3
		base["max_height"] = 8
		base["max_relay"] = 4
		return base, 9, 25 * time.Minute
	}
	return base, 7, 150 * time.Second
}

func init() {
	checks["C09"] = &checkDef{
		Level: "model_checking",
		Run: func(c *runCtx) (map[string]interface{}, []string, []violation, error) {
			opts, depth, dl := c09Opts(c.Tier)
			if d, ok := c.Args["depth"]; ok {
				fmt.Sscan(d, &depth)
			}
			out, err := runBFS(c.Bin, c.Scratch, bfsCfg{Model: "c01", Opts: opts, Depth: depth, Workers: c.Workers, Deadline: dl, Recycle: 120, OpenTags: openTags(c)})
			if err != nil {
				return nil, nil, nil, err
			}
			cov := bfsCoverage(out, "explicit-state BFS over histories of {deliver, relay(spend of a wallet coin, incoming payment, child of a pending spend, conflicting spend, duplicate), "+
				"extend(4 plain templates + confirm-pending, confirm-conflict, confirm-foreign-conflict), reorg(depth<=2, patterns empty/re-mine/double-spend)}; relays only on a caught-up wallet; "+
				"in every state the queue is drained, then: ledger vs reference (C01 oracle), wallet pending buckets vs reference pending model, read-back of every pending entry, spent_by_unmined flag of every coin, "+
				"and two automatic-selection probes; distinct_nontrivial = distinct drained observations")
			cov["bounds"] = map[string]interface{}{"depth": depth, "opts": opts}
			// several pending spenders of one coin: from a state in which the wallet holds two coins,
			// a two-input spend, a conflicting spend of its first input, and blocks that confirm a
			// conflict on either input - in every relay order
			so := map[string]interface{}{"relay": true, "templates": []string{"e"}, "patterns": []string{"E", "R"}, "max_reorg": 1, "max_queue": 1, "max_height": 6, "max_relay": 4, "no_b": true,
				"relay_templates": []string{"s2", "cf", "sp", "dup"}, "pending_blocks": []string{"c2", "cc", "cp"}, "setup": []string{"x.pa", "d", "x.pa", "d"}}
			sh, err := runBFS(c.Bin, c.Scratch, bfsCfg{Model: "c01", Opts: so, Depth: map[bool]int{false: 6, true: 9}[c.Tier == "thorough"], Workers: c.Workers, Deadline: dl, Recycle: 120, OpenTags: openTags(c)})
			if err != nil {
				return nil, nil, nil, err
			}
			cov["shared_coin_pass"] = map[string]interface{}{"states": sh.States, "transitions": sh.Transitions, "depth_completed": sh.DepthDone, "exhaustive": sh.Exhaustive, "per_event_transitions": sh.PerEvent, "opts": so}
			out.Violations = append(out.Violations, sh.Violations...)
			return cov, []string{
				"the node's own mempool is empty: pending transactions reach the wallet only through relay notifications",
				"relay notifications are explored only when no tip notification is queued (a lagging wallet ignores relays by design)",
				"chain DB and consensus library trusted; consensus constants scaled; map iteration order not controlled",
			}, out.Violations, nil
		},
		Replay: func(c *runCtx, file string) error {
			return replayBFS(c, "c01", file, func(t string) interface{} { o, _, _ := c09Opts(t); return o })
		},
	}
}
