package main

import (
	"encoding/json"
	"fmt"
	"os"
	"os/exec"
	"path/filepath"
	"sort"
	"strconv"
	"strings"
	"sync"
	"time"
)

// buildInstrumented generates the instrumented sources from /repo's CURRENT tree (vinstr),
// and builds the worker with tags "verif vinstr" over that overlay. extraTags adds tags.
func buildInstrumented(c *runCtx, out string, race bool) error {
	vin := filepath.Join(c.Scratch, "vinstr")
	cmd := exec.Command("go", "build", "-o", vin, "./cmd/vinstr")
	cmd.Dir = filepath.Join(c.Root, "harness")
	cmd.Env = goEnv()
	if b, err := cmd.CombinedOutput(); err != nil {
		return fmt.Errorf("build vinstr: %v\n%s", err, b)
	}
	outDir := filepath.Join(c.Scratch, "instr")
	os.MkdirAll(outDir, 0o755)
	extra := map[string]string{}
	if po := perfOverlay(c); po != nil {
		for k, v := range c.OverlayFiles {
			extra[k] = v
		}
	}
	eb, _ := json.Marshal(extra)
	cmd = exec.Command(vin, repoDir(), filepath.Join(c.Root, "harness", "instr", "shim.go.txt"), outDir)
	cmd.Env = append(os.Environ(), "VINSTR_EXTRA="+string(eb))
	if b, err := cmd.CombinedOutput(); err != nil {
		return fmt.Errorf("vinstr: %v\n%s", err, b)
	}
	args := []string{"build", "-tags", "verif vinstr", "-overlay", filepath.Join(outDir, "overlay.json")}
	if race {
		args = append(args, "-race")
	}
	args = append(args, "-o", out, "./cmd/vworker")
	cmd = exec.Command("go", args...)
	cmd.Dir = filepath.Join(c.Root, "harness")
	cmd.Env = goEnv()
	if b, err := cmd.CombinedOutput(); err != nil {
		return fmt.Errorf("instrumented build failed: %v\n%s", err, b)
	}
	return nil
}

// schedStats mirrors vh/sched.Stats (vcheck does not import harness packages that import the repository).
type schedStats struct {
	Executions   int
	Points       int
	MaxPoints    int
	Outcomes     map[string]int
	BoundDone    int
	Exhaustive   bool
	CapHit       string
	Deadlocks    int
	ReplayChecks int
	Samples      [][]string
}

type schedViolation struct {
	Choices []int    `json:"choices"`
	Trace   []string `json:"trace"`
	Viol    []string `json:"viol"`
	Known   []string `json:"known"`
}

type schedOut struct {
	Scenario   string           `json:"scenario"`
	Bound      int              `json:"bound"`
	Stats      *schedStats      `json:"stats"`
	Violations []schedViolation `json:"violations"`
}

type schedJob struct {
	Scenario int
	Name     string
	Bound    int
	Shard    int
	NShards  int
	Seconds  int
}

type scnSummary struct {
	Scenario    string         `json:"scenario"`
	Bound       int            `json:"preemption_bound"`
	Executions  int            `json:"executions"`
	Points      int            `json:"scheduling_points"`
	MaxPoints   int            `json:"longest_execution_points"`
	Outcomes    map[string]int `json:"outcomes"`
	Exhaustive  bool           `json:"exhaustive"`
	CapHit      string         `json:"cap_hit,omitempty"`
	Deadlocks   int            `json:"deadlocks"`
	ReplayTests int            `json:"replay_self_tests"`
}

// runSched runs the scheduler-exploration job `job` for every (scenario, bound) pair, sharded
// over worker processes, and merges the results.
// runSchedSel is runSched for jobs without a preemption bound; scenarios named "" are skipped
// (indexes are kept).
func runSchedSel(c *runCtx, bin, job string, scenarios []string, nshards, seconds int) ([]*scnSummary, []violation, [][]string, error) {
	return runSched(c, bin, job, scenarios, []int{0}, nshards, seconds)
}

func runSched(c *runCtx, bin, job string, scenarios []string, bounds []int, nshards, seconds int) ([]*scnSummary, []violation, [][]string, error) {
	return runSchedB(c, bin, job, scenarios, func(string) []int { return bounds }, nshards, seconds)
}

// runSchedB is runSched with the preemption bounds chosen per scenario.
func runSchedB(c *runCtx, bin, job string, scenarios []string, boundsFor func(name string) []int, nshards, seconds int) ([]*scnSummary, []violation, [][]string, error) {
	var jobsL []schedJob
	maxB := 0
	for _, name := range scenarios {
		for _, b := range boundsFor(name) {
			if b > maxB {
				maxB = b
			}
		}
	}
	for b := 0; b <= maxB; b++ {
		for si, name := range scenarios {
			if name == "" {
				continue
			}
			has := false
			for _, x := range boundsFor(name) {
				has = has || x == b
			}
			if !has {
				continue
			}
			for sh := 0; sh < nshards; sh++ {
				jobsL = append(jobsL, schedJob{si, name, b, sh, nshards, seconds})
			}
		}
	}
	outs := make([]*schedOut, len(jobsL))
	errs := make([]error, len(jobsL))
	var wg sync.WaitGroup
	sem := make(chan struct{}, c.Workers)
	for i := range jobsL {
		wg.Add(1)
		go func(i int) {
			defer wg.Done()
			sem <- struct{}{}
			defer func() { <-sem }()
			j := jobsL[i]
			ob, _ := json.Marshal(map[string]interface{}{"scenario": j.Scenario, "bound": j.Bound, "shard": j.Shard, "nshards": j.NShards, "seconds": j.Seconds})
			cmd := exec.Command(bin, "job", job, string(ob))
			dir := fmt.Sprintf("%s/s%d", c.Scratch, i)
			os.MkdirAll(dir, 0o755)
			defer os.RemoveAll(dir)
			cmd.Env = append(os.Environ(), "VH_SCRATCH="+dir, "GOMAXPROCS=2", "VH_OVERLAYS="+strings.Join(c.Overlays, "|"))
			var eb strings.Builder
			cmd.Stderr = &eb
			done := make(chan struct{})
			var b []byte
			var err error
			go func() { b, err = cmd.Output(); close(done) }()
			select {
			case <-done:
			case <-time.After(time.Duration(j.Seconds+600) * time.Second):
				cmd.Process.Kill()
				<-done
				errs[i] = fmt.Errorf("%s bound %d shard %d: worker did not finish %ds after its own deadline (a hang outside the scheduler's control)", j.Name, j.Bound, j.Shard, 600)
				return
			}
			if err != nil {
				errs[i] = fmt.Errorf("%s bound %d shard %d: %v\n%s", j.Name, j.Bound, j.Shard, err, tail(eb.String(), 4000))
				return
			}
			var o schedOut
			if err := json.Unmarshal(b, &o); err != nil {
				errs[i] = fmt.Errorf("%s shard %d output: %v", j.Name, j.Shard, err)
				return
			}
			outs[i] = &o
		}(i)
	}
	wg.Wait()
	for _, e := range errs {
		if e != nil {
			return nil, nil, nil, e
		}
	}
	sums := map[string]*scnSummary{}
	var order []string
	var viols []violation
	var samples [][]string
	for i, o := range outs {
		j := jobsL[i]
		k := fmt.Sprintf("%s/%d", j.Name, j.Bound)
		s := sums[k]
		if s == nil {
			s = &scnSummary{Scenario: j.Name, Bound: j.Bound, Outcomes: map[string]int{}, Exhaustive: true}
			sums[k] = s
			order = append(order, k)
		}
		st := o.Stats
		s.Executions += st.Executions
		s.Points += st.Points
		if st.MaxPoints > s.MaxPoints {
			s.MaxPoints = st.MaxPoints
		}
		for ok, n := range st.Outcomes {
			s.Outcomes[ok] += n
		}
		if !st.Exhaustive {
			s.Exhaustive = false
			s.CapHit = st.CapHit
		}
		s.Deadlocks += st.Deadlocks
		s.ReplayTests += st.ReplayChecks
		if j.Shard == 0 && len(st.Samples) > 0 && len(samples) < 6 {
			samples = append(samples, append([]string{"scenario=" + j.Name}, st.Samples[0]...))
		}
		for _, v := range o.Violations {
			var ch []string
			for _, x := range v.Choices {
				ch = append(ch, strconv.Itoa(x))
			}
			viols = append(viols, violation{
				Hist:   []string{"scenario=" + strconv.Itoa(j.Scenario), "name=" + j.Name, "schedule=" + strings.Join(ch, ",")},
				Viol:   v.Viol,
				Known:  v.Known,
				Detail: map[string]interface{}{"trace": v.Trace, "preemption_bound": j.Bound},
			})
		}
	}
	sort.SliceStable(viols, func(a, b int) bool { return len(viols[a].Hist[2]) < len(viols[b].Hist[2]) })
	var res []*scnSummary
	for _, k := range order {
		res = append(res, sums[k])
	}
	return res, viols, samples, nil
}

func tail(s string, n int) string {
	if len(s) > n {
		return s[len(s)-n:]
	}
	return s
}

// replaySched re-executes one recorded schedule on a freshly instrumented build.
func replaySched(c *runCtx, job, file string) error {
	b, err := os.ReadFile(file)
	if err != nil {
		return err
	}
	var rf struct {
		Violation violation `json:"violation"`
	}
	if err := json.Unmarshal(b, &rf); err != nil {
		return err
	}
	scn, sched := -1, []int{}
	for _, h := range rf.Violation.Hist {
		if strings.HasPrefix(h, "scenario=") {
			scn, _ = strconv.Atoi(h[len("scenario="):])
		}
		if strings.HasPrefix(h, "schedule=") && len(h) > len("schedule=") {
			for _, x := range strings.Split(h[len("schedule="):], ",") {
				n, _ := strconv.Atoi(x)
				sched = append(sched, n)
			}
		}
	}
	if scn < 0 {
		return fmt.Errorf("replay file names no scenario")
	}
	bin := filepath.Join(c.Scratch, "vworker-instr")
	if err := buildInstrumented(c, bin, false); err != nil {
		return err
	}
	ob, _ := json.Marshal(map[string]interface{}{"scenario": scn, "replay": sched})
	cmd := exec.Command(bin, "job", job, string(ob))
	cmd.Stdout = os.Stdout
	cmd.Stderr = os.Stderr
	return cmd.Run()
}
