package main

import (
	"encoding/json"
	"fmt"
	"os"
	"os/exec"
	"path/filepath"
	"regexp"
	"sort"
	"strings"
	"sync"
)

type raceReport struct {
	Inner  [2]string
	Wallet [2][]string
	Text   string
}

var frameRe = regexp.MustCompile(`^\s+(\S+)\(`)

// parseRaces splits a GORACE log into reports and extracts, for both racing accesses, the
// innermost frame and the wallet-module frames.
func parseRaces(txt string) []raceReport {
	var res []raceReport
	for _, rep := range strings.Split(txt, "==================") {
		if !strings.Contains(rep, "WARNING: DATA RACE") {
			continue
		}
		var rr raceReport
		rr.Text = strings.TrimSpace(rep)
		k := 0
		for _, sec := range strings.Split(strings.TrimSpace(rep), "\n\n") {
			s := strings.TrimSpace(sec)
			s = strings.TrimPrefix(s, "WARNING: DATA RACE\n")
			if !(strings.HasPrefix(s, "Write") || strings.HasPrefix(s, "Read") || strings.HasPrefix(s, "Previous") || strings.HasPrefix(s, "Atomic")) {
				continue
			}
			if k >= 2 {
				break
			}
			for _, l := range strings.Split(s, "\n") {
				if m := frameRe.FindStringSubmatch(l); m != nil {
					if rr.Inner[k] == "" {
						rr.Inner[k] = m[1]
					}
					if strings.HasPrefix(m[1], "massnet.org/mass-wallet/") && len(rr.Wallet[k]) < 4 {
						rr.Wallet[k] = append(rr.Wallet[k], m[1])
					}
				}
			}
			k++
		}
		res = append(res, rr)
	}
	return res
}

// runRacePass builds the UNINSTRUMENTED worker with -race and runs the free-running bodies.
func runRacePass(c *runCtx, procs, iterations int) (map[string]interface{}, []violation, error) {
	bin := filepath.Join(c.Scratch, "vworker-race")
	args := []string{"build", "-race", "-tags", "verif"}
	args = append(args, perfOverlay(c)...)
	args = append(args, "-o", bin, "./cmd/vworker")
	cmd := exec.Command("go", args...)
	cmd.Dir = filepath.Join(c.Root, "harness")
	cmd.Env = goEnv()
	if b, err := cmd.CombinedOutput(); err != nil {
		return nil, nil, fmt.Errorf("race build failed: %v\n%s", err, b)
	}
	type res struct {
		Iterations int `json:"iterations"`
		APICalls   int `json:"api_calls"`
		Blocks     int `json:"blocks_announced"`
	}
	outs := make([]res, procs)
	errs := make([]error, procs)
	logs := make([]string, procs)
	var crashMu sync.Mutex
	var crashes []string
	var crashViols []violation
	var wg sync.WaitGroup
	for i := 0; i < procs; i++ {
		wg.Add(1)
		go func(i int) {
			defer wg.Done()
			dir := fmt.Sprintf("%s/race%d", c.Scratch, i)
			os.MkdirAll(dir, 0o755)
			defer os.RemoveAll(dir)
			ob, _ := json.Marshal(map[string]interface{}{"iterations": iterations})
			cmd := exec.Command(bin, "job", "c17race", string(ob))
			cmd.Env = append(os.Environ(), "VH_SCRATCH="+dir, "GORACE=halt_on_error=0 exitcode=0 log_path="+dir+"/racelog", fmt.Sprintf("GOMAXPROCS=%d", 2+i%3))
			var eb strings.Builder
			cmd.Stderr = &eb
			b, err := cmd.Output()
			if err != nil {
				if fr := repoPanicFrames(eb.String()); fr != "" {
					// the wallet itself crashed under concurrent use (the panicking goroutine's first
					// frames are repository code): a violation, not a harness fault
					crashMu.Lock()
					crashes = append(crashes, fr)
					crashMu.Unlock()
					return
				}
				errs[i] = fmt.Errorf("race worker %d: %v\n%s", i, err, tail(eb.String(), 3000))
				return
			}
			if err := json.Unmarshal(b, &outs[i]); err != nil {
				errs[i] = err
				return
			}
			files, _ := filepath.Glob(dir + "/racelog*")
			for _, f := range files {
				fb, _ := os.ReadFile(f)
				logs[i] += string(fb)
			}
		}(i)
	}
	wg.Wait()
	for _, fr := range crashes {
		crashViols = append(crashViols, violation{Hist: []string{"race-pass"}, Viol: []string{"the wallet crashed while API calls, follower, import and removal ran concurrently: " + fr}, Known: []string{"wallet-crash-under-concurrency"}})
	}
	for _, e := range errs {
		if e != nil {
			return nil, nil, e
		}
	}
	tot := res{}
	reports, excluded := 0, 0
	seen := map[string]bool{}
	var viols []violation
	viols = append(viols, crashViols...)
	for i := range outs {
		tot.Iterations += outs[i].Iterations
		tot.APICalls += outs[i].APICalls
		tot.Blocks += outs[i].Blocks
		for _, rr := range parseRaces(logs[i]) {
			reports++
			// both racing accesses inside mass-core's logging package (a package-level logger
			// object written by every CPrint): a defect of the dependency, outside this repository
			if strings.Contains(rr.Inner[0], "massnetorg/mass-core/logging.") && strings.Contains(rr.Inner[1], "massnetorg/mass-core/logging.") {
				excluded++
				continue
			}
			key := fmt.Sprint(rr.Inner, rr.Wallet)
			if seen[key] {
				continue
			}
			seen[key] = true
			what := fmt.Sprintf("data race: %s (via %v) against %s (via %v)", rr.Inner[0], rr.Wallet[0], rr.Inner[1], rr.Wallet[1])
			viols = append(viols, violation{Hist: []string{"race-pass"}, Viol: []string{what}, Known: []string{"data-race:" + raceTag(rr)}, Detail: rr.Text})
		}
	}
	sort.Slice(viols, func(a, b int) bool { return viols[a].Viol[0] < viols[b].Viol[0] })
	cov := map[string]interface{}{
		"kind":                               "free-running go -race run of API calls || follower || import || removal || stop on real goroutines (samples schedules; NOT exhaustive, auxiliary to the enumeration)",
		"processes":                          procs,
		"iterations":                         tot.Iterations,
		"api_calls":                          tot.APICalls,
		"blocks_announced":                   tot.Blocks,
		"race_reports":                       reports,
		"excluded_dependency_reports":        excluded,
		"excluded_dependency_reports_reason": "both accesses inside github.com/massnetorg/mass-core/logging (SetCallRelation writes a package-level logger from every CPrint/VPrint): dependency code outside this repository",
		"distinct_in_scope_races":            len(viols),
	}
	return cov, viols, nil
}

func raceTag(rr raceReport) string {
	f := func(l []string, inner string) string {
		if len(l) > 0 {
			return l[0]
		}
		return inner
	}
	a, b := f(rr.Wallet[0], rr.Inner[0]), f(rr.Wallet[1], rr.Inner[1])
	if a > b {
		a, b = b, a
	}
	return a + "|" + b
}

func init() {
	checks["C17"] = &checkDef{
		Level: "model_checking",
		Run: func(c *runCtx) (map[string]interface{}, []string, []violation, error) {
			bin := filepath.Join(c.Scratch, "vworker-instr")
			if err := buildInstrumented(c, bin, false); err != nil {
				return nil, nil, nil, err
			}
			names, err := listScenarios(bin, "c17")
			if err != nil {
				return nil, nil, nil, err
			}
			secs, procs, iters := 120, 8, 12
			if c.Tier == "thorough" {
				secs, procs, iters = 1500, 16, 150
			}
			var sel []string
			for _, n := range names {
				// scenarios marked deep (four commits, withdrawals, deeper reorgs) run in the thorough tier only
				if strings.HasPrefix(n, "deep:") {
					if c.Tier != "thorough" {
						sel = append(sel, "")
						continue
					}
					n = n[len("deep:"):]
				}
				sel = append(sel, n)
			}
			sums, viols, samples, err := runSchedSel(c, bin, "c17", sel, 8, secs)
			if err != nil {
				return nil, nil, nil, err
			}
			raceCov, raceViols, err := runRacePass(c, procs, iters)
			if err != nil {
				return nil, nil, nil, err
			}
			viols = append(viols, raceViols...)
			execs, points, distinct := 0, 0, 0
			exhaustive := true
			var skipped []string
			for i, n := range sel {
				if n == "" {
					skipped = append(skipped, names[i])
				}
			}
			for _, s := range sums {
				execs += s.Executions
				points += s.Points
				distinct += len(s.Outcomes)
				if !s.Exhaustive {
					exhaustive = false
				}
				if len(s.Outcomes) > 12 {
					// keep the evidence file readable: the largest outcome tables are summarised
					s.Outcomes = map[string]int{fmt.Sprintf("(%d distinct (window, answer) outcomes)", len(s.Outcomes)): s.Executions}
				}
			}
			var smp []interface{}
			for _, s := range samples {
				smp = append(smp, s)
			}
			cov := map[string]interface{}{
				"states":                        points,
				"transitions":                   points,
				"schedules":                     execs,
				"traces_validated_against_impl": execs,
				"evaluations":                   execs,
				"distinct_nontrivial":           distinct,
				"exhaustive":                    exhaustive,
				"per_scenario":                  sums,
				"scenarios_left_to_thorough":    skipped,
				"samples":                       smp,
				"aux_race_pass":                 raceCov,
				"rule": "placement enumeration on the INSTRUMENTED REAL code: thread Q runs one public query (WalletBalance detail, AddressBalance, GetUtxo, AutoCreateRawTransaction; two scenarios with two query threads), thread H processes the queued tips as handle() does (two or three connects, pay+spend, spend+spend, a 2-deep reorg, reorg+connect). " +
					"The only preemption points are the db-seam gates: Q's BeginReadTx/Get/GetByPrefix/NewIterator and H's Commit; EVERY placement of H's commits among Q's gates is executed (no preemption bound; locks are scheduling points only when they block; with two queries only one order of the mutually independent query steps per commit placement). " +
					"Oracle: the answer equals the answer of the same query run alone, on a fresh instance, at one of the block boundaries between the call's start and its last read (sequential twins, computed twice and required identical). Each shard replays its default schedule twice (determinism self-test).",
			}
			return cov, []string{
				"the race-detector pass is a sampling detector, reported under coverage.aux_race_pass and not part of the exhaustiveness claim; races whose both accesses lie inside mass-core's logging package are excluded as dependency defects",
				"database reads issued through an iterator after its creation are served from the iterator's own snapshot (goleveldb), so the iterator's creation is the gate",
				"queries read no follower memory (they read SyncedTo from the store), so H's in-memory best-block update after the commit is not a separate gate",
			}, viols, nil
		},
		Replay: func(c *runCtx, file string) error { return replaySched(c, "c17", file) },
	}
}

// repoPanicFrames looks at the stderr of a crashed worker: if the panicking goroutine's
// innermost non-runtime frame is repository code it returns the first repository frames.
func repoPanicFrames(stderr string) string {
	i := strings.Index(stderr, "panic:")
	if i < 0 {
		i = strings.Index(stderr, "fatal error:")
	}
	if i < 0 {
		return ""
	}
	lines := strings.Split(stderr[i:], "\n")
	started := false
	var frames []string
	first := ""
	for _, l := range lines {
		if strings.HasPrefix(l, "goroutine ") {
			if started {
				break
			}
			started = true
			continue
		}
		if !started || strings.HasPrefix(l, "\t") || l == "" || strings.HasPrefix(l, "runtime.") || strings.HasPrefix(l, "panic(") || strings.HasPrefix(l, "[signal") {
			continue
		}
		if first == "" {
			first = l
		}
		if strings.HasPrefix(l, "massnet.org/mass-wallet/") && len(frames) < 5 {
			if k := strings.LastIndex(l, "("); k > 0 {
				frames = append(frames, strings.TrimPrefix(l[:k], "massnet.org/mass-wallet/"))
			}
		}
	}
	if !strings.HasPrefix(first, "massnet.org/mass-wallet/") {
		return ""
	}
	head := strings.SplitN(stderr[i:], "\n", 2)[0]
	return head + " | " + strings.Join(frames, " < ")
}
