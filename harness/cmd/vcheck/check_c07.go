package main

import (
	"fmt"
	"strings"
	"time"
)

func init() {
	checks["C07"] = &checkDef{
		Level: "model_checking",
		Run: func(c *runCtx) (map[string]interface{}, []string, []violation, error) {
			opts := map[string]interface{}{"import": true, "templates": []string{"e"}, "patterns": []string{"E", "R"}, "max_reorg": 2, "max_queue": 2, "max_height": 6, "no_b": true,
				"gap": 3, "c_blocks": []string{"pc0", "pc2", "pc4", "sc", "c2a", "cch"}}
			depth, dl := 6, 170*time.Second
			if c.Tier == "thorough" {
				opts["max_reorg"] = 3
				opts["max_height"] = 8
				opts["templates"] = []string{"e", "pa"}
				depth, dl = 8, 25*time.Minute
			}
			if d, ok := c.Args["depth"]; ok {
				fmt.Sscan(d, &depth)
			}
			out, err := runBFS(c.Bin, c.Scratch, bfsCfg{Model: "c01", Opts: opts, Depth: depth, Workers: c.Workers, Deadline: dl, Recycle: 150, OpenTags: openTags(c)})
			if err != nil {
				return nil, nil, nil, err
			}
			cov := bfsCoverage(out, "explicit-state BFS over histories of {deliver, extend(empty, pay address 0/2/4 of the external wallet C (gap limit 3, so that discovery has to slide its window), spend C's oldest coin), reorg(depth<=2/3, empty/re-mine), "+
				"ImportWalletWithMnemonic(C) with index hint 0 or 3, ONE rescan batch of the real asyncImport (with the suspend/resume hand-shake), restart}; while the import is pending UseWallet(C) and RemoveWallet(C) must be refused; "+
				"the worker's re-queue decision is modelled from what each batch returns; in every state pending batches are then run to completion (the follower delivering between batches) and the restored wallet's addresses-with-history, coins, balances and the other wallet's ledger are compared with the reference ledger, "+
				"i.e. with what a wallet that watched the chain live reports (C01); distinct_nontrivial = distinct completed observations")
			cov["bounds"] = map[string]interface{}{"depth": depth, "opts": opts}
			// long chains: the rescan spans several 1000-block batches
			long, err := runBFS(c.Bin, c.Scratch, bfsCfg{Model: "c01", Opts: map[string]interface{}{"import": true, "templates": []string{"e"}, "patterns": []string{"E"}, "c_blocks": []string{"pc0", "sc"},
				"max_reorg": 1, "max_queue": 1, "max_height": 4, "no_b": true, "prefix": 1003}, Depth: map[bool]int{false: 4, true: 6}[c.Tier == "thorough"], Workers: c.Workers, Deadline: dl, Recycle: 40, OpenTags: openTags(c)})
			if err != nil {
				return nil, nil, nil, err
			}
			cov["multi_batch_pass"] = map[string]interface{}{"prefix_blocks": 1003, "states": long.States, "transitions": long.Transitions, "depth_completed": long.DepthDone, "exhaustive": long.Exhaustive}
			// a rescan interrupted between its two batches by reorganisations that reach below the
			// rescan cursor: starts from the state after the first batch (cursor at height 1000,
			// tip at 1002 with a payment to the restored wallet at 1001)
			mid, err := runBFS(c.Bin, c.Scratch, bfsCfg{Model: "c01", Opts: map[string]interface{}{"import": true, "templates": []string{"e"}, "patterns": []string{"R", "E"}, "c_blocks": []string{"pc1"},
				"max_reorg": 3, "max_queue": 4, "max_height": 9, "no_b": true, "prefix": 998,
				"setup": []string{"x.e", "d", "x.e", "d", "x.pc0", "d", "x.e", "d", "i.m0", "i.s"}}, Depth: map[bool]int{false: 3, true: 5}[c.Tier == "thorough"], Workers: c.Workers, Deadline: dl, Recycle: 40, OpenTags: openTags(c)})
			if err != nil {
				return nil, nil, nil, err
			}
			cov["reorg_between_batches_pass"] = map[string]interface{}{"prefix_blocks": 998, "states": mid.States, "transitions": mid.Transitions, "depth_completed": mid.DepthDone, "exhaustive": mid.Exhaustive}
			long.Violations = append(long.Violations, mid.Violations...)
			// short chains, one height per rescan batch: every import takes as many batches as the
			// chain is high, with deliveries, new blocks, reorganisations (above, at and below the
			// rescan cursor) and a restart between any two of them
			batchOverlay := false
			for _, o := range c.Overlays {
				if strings.HasPrefix(o, "asyncImport:") && !strings.Contains(o, "NOT APPLIED") {
					batchOverlay = true
				}
			}
			if batchOverlay {
				bo := map[string]interface{}{"import": true, "batch": 1, "templates": []string{"e"}, "patterns": []string{"E", "R"}, "max_reorg": 2, "max_queue": 2, "max_height": 5, "no_b": true,
					"gap": 3, "c_blocks": []string{"pc0", "pc2", "sc", "c2a"}, "setup": []string{"x.pc0", "d", "x.e", "d"}}
				sb, err := runBFS(c.Bin, c.Scratch, bfsCfg{Model: "c01", Opts: bo, Depth: map[bool]int{false: 5, true: 8}[c.Tier == "thorough"], Workers: c.Workers, Deadline: dl, Recycle: 150, OpenTags: openTags(c)})
				if err != nil {
					return nil, nil, nil, err
				}
				cov["single_height_batches_pass"] = map[string]interface{}{"heights_per_batch": 1, "states": sb.States, "transitions": sb.Transitions, "depth_completed": sb.DepthDone, "exhaustive": sb.Exhaustive,
					"per_event_transitions": sb.PerEvent, "distinct_outcomes": len(sb.Outcomes), "opts": bo}
				long.Violations = append(long.Violations, sb.Violations...)
				// the same, started in the middle of an import: four one-height batches have run, the
				// restored wallet's first credit is recorded, the wallet is still importing - blocks
				// that spend or add to what the rescan has already recorded, reorganisations, restart
				mo := map[string]interface{}{"import": true, "batch": 1, "templates": []string{"e"}, "patterns": []string{"E", "R"}, "max_reorg": 2, "max_queue": 2, "max_height": 6, "no_b": true,
					"gap": 3, "c_blocks": []string{"pc0", "sc", "c2a"}, "setup": []string{"x.pc0", "d", "x.e", "d", "i.m0", "i.s", "i.s", "i.s", "i.s"}}
				mb, err := runBFS(c.Bin, c.Scratch, bfsCfg{Model: "c01", Opts: mo, Depth: map[bool]int{false: 4, true: 7}[c.Tier == "thorough"], Workers: c.Workers, Deadline: dl, Recycle: 150, OpenTags: openTags(c)})
				if err != nil {
					return nil, nil, nil, err
				}
				cov["mid_import_pass"] = map[string]interface{}{"heights_per_batch": 1, "states": mb.States, "transitions": mb.Transitions, "depth_completed": mb.DepthDone, "exhaustive": mb.Exhaustive,
					"per_event_transitions": mb.PerEvent, "distinct_outcomes": len(mb.Outcomes), "opts": mo}
				long.Violations = append(long.Violations, mb.Violations...)
			} else {
				cov["single_height_batches_pass"] = "skipped: the current tree does not contain the line the rescan-batch overlay rewrites"
			}
			return cov, []string{
				"the original wallet is represented by the reference ledger, which the C01 check shows equal to what a live wallet reports",
				"rescan batches are atomic steps executed by the real asyncImport; finer interleavings of its suspend/resume hand-shake belong to C20",
				"staking/binding records of the restored wallet are covered only through the shared ledger oracle",
			}, append(out.Violations, long.Violations...), nil
		},
		Replay: func(c *runCtx, file string) error {
			return replayBFS(c, "c01", file, func(t string) interface{} {
				return map[string]interface{}{"import": true, "templates": []string{"e", "pa"}, "patterns": []string{"E", "R"}, "max_reorg": 3, "max_queue": 3, "max_height": 8, "no_b": true, "gap": 3, "c_blocks": []string{"pc0", "pc2", "pc4", "sc"}}
			})
		},
	}
}
