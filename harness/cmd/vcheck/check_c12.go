package main

import (
	"fmt"
	"time"
)

func init() {
	checks["C12"] = &checkDef{
		Level: "model_checking",
		Run: func(c *runCtx) (map[string]interface{}, []string, []violation, error) {
			gaps := []int{2, 3}
			depth, dl := 6, 80*time.Second
			if c.Tier == "thorough" {
				gaps = []int{2, 3, 4}
				depth, dl = 9, 8*time.Minute
			}
			if d, ok := c.Args["depth"]; ok {
				fmt.Sscan(d, &depth)
			}
			var all []violation
			var cov map[string]interface{}
			per := map[string]interface{}{}
			tot := &bfsOut{PerEvent: map[string]int{}, Outcomes: map[string]int{}, Info: map[string]int{}, Exhaustive: true}
			for _, g := range gaps {
				opts := map[string]interface{}{"gap": g, "max_issue": g + 4, "max_height": 7}
				out, err := runBFS(c.Bin, c.Scratch, bfsCfg{Model: "c12", Opts: opts, Depth: depth, Workers: c.Workers, Deadline: dl, Recycle: 150, OpenTags: openTags(c)})
				if err != nil {
					return nil, nil, nil, err
				}
				per[fmt.Sprintf("gap_%d", g)] = map[string]interface{}{"states": out.States, "transitions": out.Transitions, "depth_completed": out.DepthDone, "exhaustive": out.Exhaustive, "cap_hit": out.CapHit}
				tot.States += out.States
				tot.Transitions += out.Transitions
				tot.Quiescent += out.Quiescent
				tot.FrontierAtBound += out.FrontierAtBound
				if out.DepthDone < tot.DepthDone || tot.DepthDone == 0 {
					tot.DepthDone = out.DepthDone
				}
				tot.Exhaustive = tot.Exhaustive && out.Exhaustive
				if out.CapHit != "" {
					tot.CapHit = out.CapHit
				}
				for k, v := range out.PerEvent {
					tot.PerEvent[k] += v
				}
				for k, v := range out.Outcomes {
					tot.Outcomes[fmt.Sprintf("g%d:%s", g, k)] += v
				}
				for k, v := range out.Info {
					tot.Info[k] += v
				}
				tot.Samples = append(tot.Samples, out.Samples...)
				all = append(all, out.Violations...)
			}
			cov = bfsCoverage(tot, "explicit-state BFS, once per gap limit, over histories of {new standard address, new staking address, pay(i) to the i-th issued address (block + delivery), reorg away the last block, restart}; "+
				"every NewAddress outcome is compared with the issuing rule evaluated on the simulator's chain and with an independent BIP-39/BIP-32/script derivation of the address at the next index; in every state: "+
				"GetAddresses (standard, staking, all) vs issued addresses and best-chain usage, the C01 ledger oracle, and three restores (hints 0, 1, issued count) into a fresh second instance that must rediscover every address with best-chain history; "+
				"distinct_nontrivial = distinct (gap, issued count, usage vector) outcomes")
			cov["per_gap_limit"] = per
			cov["bounds"] = map[string]interface{}{"depth": depth, "gap_limits": gaps, "max_issue": "gap+4", "max_height": 7}
			return cov, []string{
				"'chain history' of an address = an output to its script hash on the current best chain (what the chain database's address index answers)",
				"restored instance is inspected right after ImportWalletWithMnemonic (address discovery happens there); the background rescan itself is C07's subject",
			}, all, nil
		},
		Replay: func(c *runCtx, file string) error {
			return replayBFS(c, "c12", file, func(t string) interface{} { return map[string]interface{}{"gap": 2, "max_issue": 6, "max_height": 7} })
		},
	}
}
