package main

import (
	"fmt"
	"time"
)

func c10Opts(tier string) (map[string]interface{}, int, time.Duration) {
	base := map[string]interface{}{
		"relay": true, "games": true, "templates": []string{"e", "st", "sw", "bo", "bn", "bw"}, "patterns": []string{"E", "R", "D"},
		"relay_templates": []string{"st", "bd", "sw"}, "pending_blocks": []string{"cp"},
		"max_reorg": 2, "max_queue": 1, "max_height": 8, "max_relay": 2, "no_b": true,
	}
	if tier == "thorough" {
		base["max_queue"] = 2
		base["max_height"] = 10
		base["max_reorg"] = 3
		return base, 10, 25 * time.Minute
	}
	return base, 8, 170 * time.Second
}

func init() {
	checks["C10"] = &checkDef{
		Level: "model_checking",
		Run: func(c *runCtx) (map[string]interface{}, []string, []violation, error) {
			opts, depth, dl := c10Opts(c.Tier)
			if d, ok := c.Args["depth"]; ok {
				fmt.Sscan(d, &depth)
			}
			out, err := runBFS(c.Bin, c.Scratch, bfsCfg{Model: "c01", Opts: opts, Depth: depth, Workers: c.Workers, Deadline: dl, Recycle: 120, OpenTags: openTags(c)})
			if err != nil {
				return nil, nil, nil, err
			}
			cov := bfsCoverage(out, "explicit-state BFS over histories of {deliver, extend(empty, staking deposit, staking withdrawal, old/new-style binding deposit, binding withdrawal, confirm-pending), "+
				"relay(pending staking deposit, pending binding deposit, pending withdrawal), reorg(depth<=2/3, empty/re-mine/double-spend)} crossing the scaled warm-up height; in every drained state: "+
				"GetStakingHistory/GetBindingHistory (both views) vs every best-chain and pending deposit exactly once with amount/address/target/frozen period/height/withdrawn flag, "+
				"balances and withdrawable classification vs the consensus oracle at every height (C01 oracle), and for every unspent deposit the sequence of the withdrawal the wallet builds "+
				"and its consensus lock status for the next block; distinct_nontrivial = distinct drained observations")
			cov["bounds"] = map[string]interface{}{"depth": depth, "opts": opts}
			return cov, []string{
				"consensus constants scaled: min frozen period 2, warm-up height 5, binding lock period 3 (production: 61440 / 1398801 / 0xfffffffe)",
				"mass-core CalcSequenceLock/SequenceLockActive/CheckTransactionInputs trusted as the maturity oracle",
				"relay notifications only on a caught-up wallet; node mempool empty",
			}, out.Violations, nil
		},
		Replay: func(c *runCtx, file string) error {
			return replayBFS(c, "c01", file, func(t string) interface{} { o, _, _ := c10Opts(t); return o })
		},
	}
}
