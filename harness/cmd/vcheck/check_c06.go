package main

import (
	"fmt"
	"strings"
	"time"
)

// faultEnum enumerates, for every base history, every crash point (C06) or every
// storage-call index (C18) and runs each on the real code through the db seam.
func faultEnum(c *runCtx, kind string, baseOpts map[string]interface{}, baseDepth int, maxBase int, repeats []int, budget time.Duration) (map[string]interface{}, []violation, error) {
	start := time.Now()
	deadline := start.Add(budget)
	bfs, err := runBFS(c.Bin, c.Scratch, bfsCfg{Model: "c01", Opts: baseOpts, Depth: baseDepth, Workers: c.Workers, Deadline: budget / 3, CollectHists: true})
	if err != nil {
		return nil, nil, err
	}
	if len(bfs.Violations) > 0 {
		// the base space itself violates C01: report through the C01 check, not here
		fmt.Fprintf(os_stderr(), "  note: %d base states violate the C01 oracle; they are skipped here\n", len(bfs.Violations))
	}
	bad := map[string]bool{}
	for _, v := range bfs.Violations {
		bad[fmt.Sprint(v.Hist)] = true
	}
	var bases [][]string
	for _, h := range bfs.Hists {
		if len(h) == 0 || bad[fmt.Sprint(h)] {
			continue
		}
		bases = append(bases, h)
	}
	available := len(bases)
	if maxBase > 0 && len(bases) > maxBase {
		bases = bases[:maxBase] // BFS order: all shorter histories first
	}
	opts := map[string]interface{}{"no_b": baseOpts["no_b"], "tasks": baseOpts["import"] == true || baseOpts["remove"] == true || baseOpts["new_addr"] == true, "batch": baseOpts["batch"]}
	// dry runs: count commits / calls of every base history
	dry, to, err := runTasks(c.Bin, c.Scratch, "c06", opts, bases, c.Workers, 150, deadline)
	if err != nil {
		return nil, nil, err
	}
	var tasks [][]string
	totalPoints := 0
	for i, h := range bases {
		r := dry[i]
		if r == nil {
			continue
		}
		if r.Err != "" {
			return nil, nil, fmt.Errorf("dry run of %v: %s", h, r.Err)
		}
		if len(r.Viol) > 0 {
			continue
		}
		n := r.Info["commits"]
		if kind == "fail" {
			n = r.Info["calls"]
		}
		for k := 0; k < n; k++ {
			for _, rep := range repeats {
				t := append(append([]string{}, h...), fmt.Sprintf("#%s:%d", kind, k))
				if kind == "fail" {
					t[len(t)-1] = fmt.Sprintf("#fail:%d:%d", k, rep)
				} else if rep != 1 {
					continue
				}
				tasks = append(tasks, t)
			}
		}
		totalPoints += n
	}
	res, to2, err := runTasks(c.Bin, c.Scratch, "c06", opts, tasks, c.Workers, 150, deadline)
	if err != nil {
		return nil, nil, err
	}
	var viols []violation
	outcomes := map[string]int{}
	done, inconclusive, injected, notReached := 0, 0, 0, 0
	var samples []interface{}
	for i, r := range res {
		if r == nil {
			continue
		}
		if r.Err != "" {
			return nil, nil, fmt.Errorf("task %v: %s", tasks[i], r.Err)
		}
		done++
		outcomes[r.Outcome]++
		inconclusive += r.Info["inconclusive"]
		injected += r.Info["injected"]
		notReached += r.Info["crash_not_reached"]
		if len(samples) < 6 && i%97 == 0 {
			samples = append(samples, tasks[i])
		}
		if len(r.Viol) > 0 {
			viols = append(viols, violation{Hist: tasks[i], Viol: r.Viol, Known: r.KnownTags, Detail: r.Detail})
		}
	}
	if len(samples) == 0 && len(tasks) > 0 {
		samples = append(samples, tasks[0])
	}
	cov := map[string]interface{}{
		"evaluations":             done,
		"distinct_nontrivial":     len(outcomes),
		"samples":                 samples,
		"exhaustive":              !to && !to2 && done == len(tasks) && available == len(bases) && bfs.Exhaustive,
		"base_histories":          len(bases),
		"base_histories_in_space": available,
		"base_space_exhaustive":   bfs.Exhaustive,
		"base_states_explored":    bfs.States,
		"fault_points":            totalPoints,
		"runs_planned":            len(tasks),
		"runs_completed":          done,
		"inconclusive_runs":       inconclusive,
		"faults_injected":         injected,
		"crash_not_reached":       notReached,
		"bounds":                  map[string]interface{}{"base_depth": baseDepth, "base_opts": baseOpts, "max_base": maxBase, "repeats": repeats},
	}
	return cov, viols, nil
}

func init() {
	checks["C06"] = &checkDef{
		Level: "fault_enumeration",
		Run: func(c *runCtx) (map[string]interface{}, []string, []violation, error) {
			opts := map[string]interface{}{"max_reorg": 2, "max_queue": 2, "max_height": 6, "no_b": true}
			depth, maxBase, budget := 4, 0, 280*time.Second
			if c.Tier == "thorough" {
				opts = map[string]interface{}{"max_reorg": 3, "max_queue": 3, "max_height": 8}
				depth, maxBase, budget = 5, 0, 40*time.Minute
			}
			cov, viols, err := faultEnum(c, "crash", opts, depth, maxBase, []int{1}, budget)
			if err != nil {
				return nil, nil, nil, err
			}
			// second pass: histories with API operations and background steps (import of C,
			// removal of B with its background run, NewAddress, restart)
			topts := map[string]interface{}{"import": true, "remove": true, "new_addr": true, "templates": []string{"e", "a2b"}, "c_blocks": []string{"pc0"}, "patterns": []string{"E"}, "max_reorg": 1, "max_queue": 1, "max_height": 5}
			tdepth, tmax := 5, 0
			if c.Tier == "thorough" {
				topts["templates"] = []string{"e", "a2b", "ab"}
				topts["c_blocks"] = []string{"pc0", "sc"}
				tdepth, tmax = 6, 0
			}
			tcov, tviols, err := faultEnum(c, "crash", topts, tdepth, tmax, []int{1}, budget)
			if err != nil {
				return nil, nil, nil, err
			}
			mergeFaultCov(cov, tcov, "task_pass")
			viols = append(viols, tviols...)
			// one height per rescan batch: an import takes several batches and every commit between
			// them is a crash point (the restarted worker has to resume from what is stored)
			for _, o := range c.Overlays {
				if strings.HasPrefix(o, "asyncImport:") && !strings.Contains(o, "NOT APPLIED") {
					mcov, mviols, err := directedCrashPass(c, [][]string{
						{"x.pc0", "d", "i.m0", "i.s", "i.s", "i.s", "i.s"},
						{"x.pc0", "d", "x.pc0", "d", "i.m0", "i.s", "i.s", "i.s", "i.s", "i.s"},
						{"x.pc0", "d", "i.m0", "i.s", "i.s", "x.sc", "d", "i.s", "i.s", "i.s"},
						{"x.pc0", "d", "i.m1", "i.s", "i.s", "i.s", "x.pc0", "d", "i.s", "i.s"},
					}, map[string]interface{}{"tasks": true, "batch": 1}, "imports of 4-5 rescan batches (one height per batch), with payments to and a spend of the restored wallet before and between the batches")
					if err != nil {
						return nil, nil, nil, err
					}
					cov["multi_batch_import_pass"] = mcov
					viols = append(viols, mviols...)
				}
			}
			// third pass: the process was down while the node mined more than 2000 blocks (the
			// start-up code has a fast-forward for wallets far behind): directed histories, ended
			// by an orderly restart through the real start-up path, for four wallet-id orders
			lcov, lviols, err := longOfflinePass(c)
			if err != nil {
				return nil, nil, nil, err
			}
			cov["long_offline_pass"] = lcov
			viols = append(viols, lviols...)
			// fourth pass: wallet-database transactions of several thousand records (a block paying
			// the wallet 1500 outputs, an import that derives 2100 addresses at once), stopped
			// before every commit
			bcov, bviols, err := largeTxPass(c)
			if err != nil {
				return nil, nil, nil, err
			}
			cov["large_transaction_pass"] = bcov
			viols = append(viols, bviols...)
			cov["rule"] = "base histories = shortest history of every state of the C01 space (deliver / 12 block templates / reorgs) up to the base depth; for each, a dry run over the db seam counts the wallet-database commits n, then for EVERY k<n the history is re-run and the process is stopped before commit k (commit not applied, all volatile state dropped, later notifications lost); " +
				"the wallet is then restarted on the same database through the real start-up path (new manager, NtfnsHandler.Start catch-up, follower + worker goroutines until idle, Stop) and all ledger queries are compared with the reference ledger of the node's final chain; distinct_nontrivial = distinct recovered observations"
			return cov, []string{
				"crash model = process stop between wallet-database commits (what C06 states); torn journal writes are goleveldb's contract",
				"third pass (coverage.long_offline_pass): 5 directed histories in which the node mines 2052-2104 blocks while the wallet process is down (payments to the wallet among them; with an un-run import, a pending removal, a completed import), ended by an orderly restart, each for 4 world seeds (different orders of the wallet ids)",
				"recovery runs with free-running goroutines until idle (20 s limit; a run that does not get idle is counted as inconclusive, never as a violation)",
				"second pass (coverage.task_pass): histories with ImportWalletWithMnemonic, single rescan batches, RemoveWallet, the background removal run, NewAddress and restarts; every commit inside them is a crash point; after the crash nobody can call the wallet (later API events of the history are dropped), the restarted wallet resumes the background work by itself",
			}, viols, nil
		},
		Replay: func(c *runCtx, file string) error {
			return replayBFS(c, "c06", file, func(t string) interface{} { return map[string]interface{}{} })
		},
	}
	checks["C18"] = &checkDef{
		Level: "fault_enumeration",
		Run: func(c *runCtx) (map[string]interface{}, []string, []violation, error) {
			opts := map[string]interface{}{"max_reorg": 2, "max_queue": 2, "max_height": 6, "no_b": true}
			depth, maxBase, budget, reps := 3, 0, 280*time.Second, []int{1, 2}
			if c.Tier == "thorough" {
				depth, maxBase, budget, reps = 4, 0, 40*time.Minute, []int{1, 2, 3}
			}
			cov, viols, err := faultEnum(c, "fail", opts, depth, maxBase, reps, budget)
			if err != nil {
				return nil, nil, nil, err
			}
			// second pass: API operations and background steps as fault targets
			topts := map[string]interface{}{"import": true, "remove": true, "new_addr": true, "templates": []string{"e", "a2b"}, "c_blocks": []string{"pc0"}, "patterns": []string{"E"}, "max_reorg": 1, "max_queue": 1, "max_height": 5}
			tdepth, tmax := 3, 0
			if c.Tier == "thorough" {
				tdepth, tmax = 4, 0
			}
			tcov, tviols, err := faultEnum(c, "fail", topts, tdepth, tmax, reps, budget)
			if err != nil {
				return nil, nil, nil, err
			}
			mergeFaultCov(cov, tcov, "task_pass")
			viols = append(viols, tviols...)
			// relayed (unconfirmed) transactions as fault targets: a relay whose processing failed is
			// announced again once storage works, and must then be tracked like any other
			ropts := map[string]interface{}{"relay": true, "templates": []string{"e", "pa"}, "relay_templates": []string{"in", "sp", "dup"}, "pending_blocks": []string{"cp"}, "patterns": []string{"E"},
				"max_reorg": 1, "max_queue": 1, "max_height": 4, "max_relay": 2, "no_b": true}
			rcov, rviols, err := faultEnum(c, "fail", ropts, map[bool]int{false: 4, true: 5}[c.Tier == "thorough"], 0, reps, budget)
			if err != nil {
				return nil, nil, nil, err
			}
			mergeFaultCov(cov, rcov, "relay_pass")
			viols = append(viols, rviols...)
			// third pass: the fault is injected BELOW the ldb backend (a journal write of LevelDB
			// fails), so that the backend's own error paths run
			bcov, bviols, err := backendFaultPass(c)
			if err != nil {
				return nil, nil, nil, err
			}
			cov["backend_fault_pass"] = bcov
			viols = append(viols, bviols...)
			cov["rule"] = "base histories = shortest history of every state of the C01 space up to the base depth; a dry run over the db seam counts the fallible wallet-database calls c (BeginTx, BeginReadTx, Get, GetByPrefix, Put, Delete, Clear, NewBucket, DeleteBucket, iterator, Commit); for EVERY call index i<c and every repeat count the history is re-run with those calls returning an error; " +
				"afterwards storage works again, queued notifications are delivered, the node announces one more tip, and all ledger queries are compared with the reference ledger; distinct_nontrivial = distinct final observations"
			return cov, []string{
				"second pass (coverage.task_pass): CreateWallet, ImportWalletWithMnemonic, one rescan batch, RemoveWallet, the background removal run, NewAddress and restart as fault targets; an operation that reports failure under the fault must not have queued work for the worker and is repeated once storage works again (the worker's own re-queueing is modelled from what each step returned)",
				"an injected iterator failure yields an empty iteration whose Error() returns the injected error",
			}, viols, nil
		},
		Replay: func(c *runCtx, file string) error {
			return replayBFS(c, "c06", file, func(t string) interface{} { return map[string]interface{}{} })
		},
	}
}

// mergeFaultCov folds a second pass into the coverage of the first one.
func mergeFaultCov(cov, t map[string]interface{}, name string) {
	cov[name] = t
	for _, k := range []string{"evaluations", "distinct_nontrivial", "fault_points", "runs_planned", "runs_completed", "inconclusive_runs", "faults_injected"} {
		a, _ := cov[k].(int)
		b, _ := t[k].(int)
		cov[k] = a + b
	}
	if e, _ := t["exhaustive"].(bool); !e {
		cov["exhaustive"] = false
	}
}

// backendFaultPass: for a handful of directed histories every journal write of the wallet
// database (counted in a dry run) is made to fail in turn, below the ldb backend. LevelDB then
// refuses writes until the database is reopened: later events of the history may fail (cleanly -
// no panic, no call that never returns), then the wallet is restarted through the real start-up
// path and must catch up to the reference ledger, with unfinished background work resumed.
func backendFaultPass(c *runCtx) (map[string]interface{}, []violation, error) {
	bases := [][]string{
		{"x.pa", "d", "x.e", "d"},
		{"x.pa", "d", "x.sa", "d", "r.1.E", "d"},
		{"x.pc0", "d", "i.m0", "i.s", "x.e", "d"},
		{"x.ab", "d", "k.rm", "k.run", "x.e", "d"},
		{"n.a", "x.pa", "d"},
		{"n.w", "x.e", "d"},
	}
	opts := map[string]interface{}{"tasks": true}
	deadline := time.Now().Add(15 * time.Minute)
	var dryTasks [][]string
	for _, h := range bases {
		dryTasks = append(dryTasks, append(append([]string{}, h...), "#ldry:0"))
	}
	dry, _, err := runTasks(c.Bin, c.Scratch, "c06", opts, dryTasks, c.Workers, 20, deadline)
	if err != nil {
		return nil, nil, err
	}
	var tasks [][]string
	points := 0
	for i, h := range bases {
		r := dry[i]
		if r == nil {
			continue
		}
		if r.Err != "" {
			return nil, nil, fmt.Errorf("backend-fault history %v: %s", h, r.Err)
		}
		if len(r.Viol) > 0 {
			continue
		}
		for k := 1; k <= r.Info["journal_writes"]; k++ {
			tasks = append(tasks, append(append([]string{}, h...), fmt.Sprintf("#lfail:%d", k)))
		}
		points += r.Info["journal_writes"]
	}
	res, _, err := runTasks(c.Bin, c.Scratch, "c06", opts, tasks, c.Workers, 20, deadline)
	if err != nil {
		return nil, nil, err
	}
	done, inconclusive, injected := 0, 0, 0
	var viols []violation
	for i, r := range res {
		if r == nil {
			continue
		}
		if r.Err != "" {
			return nil, nil, fmt.Errorf("backend-fault task %v: %s", tasks[i], r.Err)
		}
		done++
		inconclusive += r.Info["inconclusive"]
		injected += r.Info["low_faults_injected"]
		if len(r.Viol) > 0 {
			viols = append(viols, violation{Hist: tasks[i], Viol: r.Viol, Known: r.KnownTags, Detail: r.Detail, Opts: opts})
		}
	}
	return map[string]interface{}{"histories": len(bases), "journal_writes_as_fault_points": points, "runs_completed": done, "faults_injected": injected, "inconclusive_runs": inconclusive,
		"what": "a failing LevelDB journal write below the ldb backend at every journal write of 6 directed histories (blocks, reorganisation, import + batch, removal, NewAddress, CreateWallet); afterwards restart and catch-up"}, viols, nil
}

// largeTxPass: directed histories whose commits carry thousands of records each; every commit
// of every history is a crash point.
func largeTxPass(c *runCtx) (map[string]interface{}, []violation, error) {
	return directedCrashPass(c, [][]string{
		{"x.pm.1500.1000", "d"},
		{"x.pm.1500.1000", "d", "x.e", "d", "r.2.R", "d"},
		{"i.mB"},
		{"x.pc0", "d", "i.mB", "i.s"},
	}, map[string]interface{}{"tasks": true}, "a block paying the wallet 1500 outputs (also reorganised away and mined again), an import call deriving 2100 addresses, one rescan batch after it")
}

// directedCrashPass: every commit of every given history is a crash point (dry run counts them).
func directedCrashPass(c *runCtx, bases [][]string, opts map[string]interface{}, what string) (map[string]interface{}, []violation, error) {
	deadline := time.Now().Add(10 * time.Minute)
	dry, _, err := runTasks(c.Bin, c.Scratch, "c06", opts, bases, c.Workers, 20, deadline)
	if err != nil {
		return nil, nil, err
	}
	var tasks [][]string
	points := 0
	for i, h := range bases {
		r := dry[i]
		if r == nil {
			continue
		}
		if r.Err != "" {
			return nil, nil, fmt.Errorf("directed history %v: %s", h, r.Err)
		}
		if len(r.Viol) > 0 {
			continue // violates without any crash: reported by the property the history belongs to
		}
		for k := 0; k < r.Info["commits"]; k++ {
			tasks = append(tasks, append(append([]string{}, h...), fmt.Sprintf("#crash:%d", k)))
		}
		points += r.Info["commits"]
	}
	res, _, err := runTasks(c.Bin, c.Scratch, "c06", opts, tasks, c.Workers, 20, deadline)
	if err != nil {
		return nil, nil, err
	}
	done, inconclusive := 0, 0
	var viols []violation
	for i, r := range res {
		if r == nil {
			continue
		}
		if r.Err != "" {
			return nil, nil, fmt.Errorf("directed task %v: %s", tasks[i], r.Err)
		}
		done++
		inconclusive += r.Info["inconclusive"]
		if len(r.Viol) > 0 {
			viols = append(viols, violation{Hist: tasks[i], Viol: r.Viol, Known: r.KnownTags, Detail: r.Detail, Opts: opts})
		}
	}
	return map[string]interface{}{"histories": len(bases), "crash_points": points, "runs_completed": done, "inconclusive_runs": inconclusive, "what": what}, viols, nil
}

// longOfflinePass runs the directed "down for 2000+ blocks" histories of C06.
func longOfflinePass(c *runCtx) (map[string]interface{}, []violation, error) {
	hists := [][]string{
		{"x.pa", "d", "xn.1", "x.pa", "xn.2050", "#restart"},
		{"i.m0", "x.pa", "d", "xn.1", "x.pa", "xn.2050", "#restart"},
		{"x.ab", "d", "k.rm", "xn.1", "x.pa", "xn.2050", "#restart"},
		{"x.pc0", "d", "i.m0", "i.s", "xn.1", "x.pc0", "x.pa", "xn.2050", "#restart"},
		{"x.pa", "d", "xn.2100", "x.pa", "xn.3", "#restart"},
	}
	done, inconclusive := 0, 0
	var viols []violation
	for _, seed := range []string{"", "s1", "s2", "s3"} {
		opts := map[string]interface{}{"tasks": true, "seed": seed}
		res, _, err := runTasks(c.Bin, c.Scratch, "c06", opts, hists, c.Workers, 20, time.Now().Add(20*time.Minute))
		if err != nil {
			return nil, nil, err
		}
		for i, r := range res {
			if r == nil {
				continue
			}
			if r.Err != "" {
				return nil, nil, fmt.Errorf("long-offline history %v (seed %q): %s", hists[i], seed, r.Err)
			}
			done++
			inconclusive += r.Info["inconclusive"]
			if len(r.Viol) > 0 {
				viols = append(viols, violation{Hist: hists[i], Viol: r.Viol, Known: r.KnownTags, Detail: r.Detail, Opts: opts})
			}
		}
	}
	return map[string]interface{}{"histories": len(hists), "wallet_id_orders": 4, "runs_completed": done, "inconclusive_runs": inconclusive, "blocks_mined_while_down": "2052-2104"}, viols, nil
}
