package main

import (
	"strings"
	"time"
)

// C02 and C03 share the model c02: shapes x request families. C02 keeps the building
// families (auto, sequence, manual), C03 the signing family.
func c02Check(prop string, fams map[string]bool, rule string, assumptions []string) *checkDef {
	return &checkDef{
		Level: "model_checking",
		Run: func(c *runCtx) (map[string]interface{}, []string, []violation, error) {
			out, err := runBFS(c.Bin, c.Scratch, bfsCfg{Model: "c02", Opts: map[string]interface{}{}, Depth: 2, Workers: c.Workers, Deadline: 25 * time.Minute, Recycle: 20, OpenTags: openTags(c)})
			if err != nil {
				return nil, nil, nil, err
			}
			var mine []violation
			for _, v := range out.Violations {
				if len(v.Hist) == 2 && fams[v.Hist[1]] {
					mine = append(mine, v)
				}
			}
			cov := bfsCoverage(out, rule)
			reqs := 0
			for k, v := range out.Info {
				if k == "requests" {
					reqs = v
				}
			}
			cov["requests_executed_all_families"] = reqs
			return cov, assumptions, mine, nil
		},
		Replay: func(c *runCtx, file string) error {
			return replayBFS(c, "c02", file, func(t string) interface{} { return map[string]interface{}{} })
		},
	}
}

func init() {
	shapes := "9 wallet UTXO shapes produced by real chain histories through the simulator (one big coin; mixed amounts from below the relay fee to several MASS on two addresses; only an immature coinbase; matured coinbase + payment; staking + binding deposits + standard coins; a coin spent by a pending relayed transaction; two wallets with a shared transaction; 40 small coins from one transaction; empty) "
	checks["C02"] = c02Check("C02", map[string]bool{"auto": true, "sequence": true, "manual": true}, shapes+
		"x the full product of AutoCreateRawTransaction requests (8 amounts from dust to 10x the funds x 1-2 recipients x 3 user fees x 2 lock times x 4 sender addresses incl. a foreign one x 3 change addresses x payload), sequences of two consecutive create calls (reservation), "+
		"and CreateRawTransaction with explicit input lists (one/two own coins, the same coin twice, a foreign coin, own+foreign, an already spent coin) x 4 amounts x change x fee subtraction x lock time; "+
		"oracle per answer, independent of the builder: every input is an unspent output of the selected wallet (and of the sender address) on the reference ledger, none twice, under automatic selection none immature/locked/pending-spent/reserved; outputs = requested map (minus equal fee shares) + at most one change to the requested address else to the first input's address; "+
		"inputs-outputs = reported fee >= user fee and >= the relay minimum for the size after signing with the wallet, above the user fee only within the standard-size relay minimum; success whenever eligible funds clearly suffice, failure whenever they clearly do not; lock time and payload as requested; distinct_nontrivial = distinct (shape, family) answer profiles",
		[]string{"success/failure is only judged outside the narrow band where the outcome depends on the exact fee estimate", "staking/binding building requests are exercised through C19's request products and C10's withdrawals, not re-checked clause by clause here"})
	checks["C03"] = c02Check("C03", map[string]bool{"sign": true}, shapes+
		"x transactions built by the wallet (automatic selection with 1..n inputs over several addresses, with/without payload and lock time, plus withdrawals of withdrawable staking/binding deposits) x 6 sighash flags: with the right passphrase the returned bytes decode to the same transaction with only the witnesses filled in, and every input passes an INDEPENDENT run of the consensus script engine (standard flags, MASSip2 where due) against the output it spends; "+
		"with 13 wrong passphrases (empty, other wallet's, public, one char longer/shorter, case variant, neighbour, the right one padded with blank/newline/tab/CRLF, doubled), before and after a successful unlock, signing fails, returns no bytes and leaves no witness in the transaction; distinct_nontrivial = distinct (shape, family) answer profiles",
		[]string{"SINGLE flags on transactions with fewer outputs than inputs are not required to sign every input", "pending-parent inputs are covered through the pending-spent shape only"})
	_ = strings.TrimSpace
}
