//go:build vinstr

package main

import (
	"encoding/json"

	"vh/models/c20"
)

func init() {
	jobs["c20"] = func(o json.RawMessage) (interface{}, error) {
		var op c20.Opts
		if err := json.Unmarshal(o, &op); err != nil {
			return nil, err
		}
		if op.List {
			var names []string
			for _, s := range c20.Scenarios {
				names = append(names, s.Name)
			}
			return names, nil
		}
		if op.NShards == 0 {
			op.NShards = 1
		}
		return c20.Job(op)
	}
}
