package main

import (
	"encoding/json"

	"vh/models/c17race"
)

func init() {
	jobs["c17race"] = func(o json.RawMessage) (interface{}, error) {
		var op c17race.Opts
		if err := json.Unmarshal(o, &op); err != nil {
			return nil, err
		}
		if op.Iterations == 0 {
			op.Iterations = 10
		}
		return c17race.Job(op)
	}
}
