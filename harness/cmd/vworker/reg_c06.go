package main

import (
	"encoding/json"

	"vh/models/c06"
	"vh/proto"
)

func init() {
	models["c06"] = func(o json.RawMessage) (proto.Model, error) {
		var op c06.Opts
		if err := json.Unmarshal(o, &op); err != nil {
			return nil, err
		}
		return c06.New(op), nil
	}
}
