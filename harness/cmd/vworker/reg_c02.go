package main

import (
	"encoding/json"

	"vh/models/c02"
	"vh/proto"
)

func init() {
	models["c02"] = func(o json.RawMessage) (proto.Model, error) { return c02.New(c02.Opts{}), nil }
}
