//go:build vinstr

package main

import (
	"encoding/json"

	"vh/models/c17"
)

func init() {
	jobs["c17"] = func(o json.RawMessage) (interface{}, error) {
		var op c17.Opts
		if err := json.Unmarshal(o, &op); err != nil {
			return nil, err
		}
		if op.List {
			var names []string
			for _, s := range c17.Scenarios {
				if s.Deep {
					names = append(names, "deep:"+s.Name)
				} else {
					names = append(names, s.Name)
				}
			}
			return names, nil
		}
		if op.NShards == 0 {
			op.NShards = 1
		}
		return c17.Job(op)
	}
}
