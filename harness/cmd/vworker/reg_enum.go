package main

import (
	"encoding/json"

	"vh/enum"
)

func regEnum(name string, f func(enum.Opts) *enum.Out) {
	jobs[name] = func(o json.RawMessage) (interface{}, error) {
		var op enum.Opts
		if err := json.Unmarshal(o, &op); err != nil {
			return nil, err
		}
		if op.NShards == 0 {
			op.NShards = 1
		}
		return f(op), nil
	}
}

func init() {
	regEnum("c15", enum.C15)
	regEnum("c13", enum.C13)
	regEnum("c14", enum.C14)
	regEnum("c16", enum.C16)
}
