package main

import (
	"encoding/json"
	"fmt"
	"runtime/debug"
	"strings"

	"vh/enum"
)

func regEnum(name string, f func(enum.Opts) *enum.Out) {
	jobs[name] = func(o json.RawMessage) (interface{}, error) {
		var op enum.Opts
		if err := json.Unmarshal(o, &op); err != nil {
			return nil, err
		}
		if op.NShards == 0 {
			op.NShards = 1
		}
		return guardEnum(name, f, op), nil
	}
}

// guardEnum runs one shard; a panic raised inside repository code while an input of the
// family is evaluated is a violation (the input crashed the code under test), reported in
// place of the shard's result. A panic that starts in harness code stays a harness error.
func guardEnum(name string, f func(enum.Opts) *enum.Out, op enum.Opts) (out *enum.Out) {
	defer func() {
		if e := recover(); e != nil {
			st := string(debug.Stack())
			origin, frames := panicOrigin(st)
			if !strings.HasPrefix(origin, "massnet.org/mass-wallet/") {
				panic(fmt.Sprintf("%v\n%s", e, st))
			}
			out = enum.NewOut()
			out.Evaluations = 1
			out.Add("(input being evaluated when shard "+fmt.Sprint(op.Shard)+" stopped)", fmt.Sprintf("the code under test panicked: %v | %s", e, frames), "panic")
		}
	}()
	return f(op)
}

func init() {
	regEnum("c15", enum.C15)
	regEnum("c13", enum.C13)
	regEnum("c14", enum.C14)
	regEnum("c16", enum.C16)
}
