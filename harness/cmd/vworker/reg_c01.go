package main

import (
	"encoding/json"

	"vh/models/c01"
	"vh/proto"
)

func init() {
	models["c01"] = func(o json.RawMessage) (proto.Model, error) {
		var op c01.Opts
		if err := json.Unmarshal(o, &op); err != nil {
			return nil, err
		}
		return c01.New(op), nil
	}
}
