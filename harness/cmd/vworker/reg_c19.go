package main

import (
	"encoding/json"

	"vh/models/c19"
	"vh/proto"
)

func init() {
	models["c19"] = func(o json.RawMessage) (proto.Model, error) {
		var op c19.Opts
		if err := json.Unmarshal(o, &op); err != nil {
			return nil, err
		}
		return c19.New(op), nil
	}
}
