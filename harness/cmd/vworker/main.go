// vworker executes property models inside a single process (one instance at a time:
// the wallet's ldb backend shares a global batch, so instances must not overlap).
package main

import (
	"bufio"
	"crypto/sha256"
	"encoding/hex"
	"encoding/json"
	"fmt"
	"os"
	"runtime"
	"runtime/debug"
	"runtime/pprof"
	"strings"

	"vh/env"
	"vh/proto"
)

// registry of BFS models: name -> constructor from JSON options.
var models = map[string]func(opts json.RawMessage) (proto.Model, error){}

// registry of one-shot jobs (enumerations, schedule explorations): name -> runner.
var jobs = map[string]func(opts json.RawMessage) (interface{}, error){}

func fail(f string, a ...interface{}) {
	fmt.Fprintf(os.Stderr, "HARNESS-ERROR "+f+"\n", a...)
	os.Exit(2)
}

func main() {
	if len(os.Args) < 3 {
		fail("usage: vworker serve|replay|job <name> [opts] [file]")
	}
	mode, name := os.Args[1], os.Args[2]
	opts := json.RawMessage("{}")
	if len(os.Args) > 3 && os.Args[3] != "" {
		opts = json.RawMessage(os.Args[3])
	}
	scratch := os.Getenv("VH_SCRATCH")
	if scratch == "" {
		d, err := os.MkdirTemp("/dev/shm", "vworker-")
		if err != nil {
			fail("scratch: %v", err)
		}
		scratch = d
		defer os.RemoveAll(d)
	}
	env.Init(scratch)
	if pf := os.Getenv("VH_CPUPROF"); pf != "" {
		f, _ := os.Create(pf)
		pprof.StartCPUProfile(f)
		defer pprof.StopCPUProfile()
	}
	if pf := os.Getenv("VH_MEMPROF"); pf != "" {
		defer func() {
			runtime.GC()
			f, _ := os.Create(pf)
			pprof.WriteHeapProfile(f)
			f.Close()
			fmt.Fprintf(os.Stderr, "goroutines at exit: %d\n", runtime.NumGoroutine())
		}()
	}
	switch mode {
	case "serve":
		mk, ok := models[name]
		if !ok {
			fail("unknown model %s", name)
		}
		m, err := mk(opts)
		if err != nil {
			fail("model opts: %v", err)
		}
		in := bufio.NewReaderSize(os.Stdin, 1<<20)
		out := bufio.NewWriter(os.Stdout)
		dec := json.NewDecoder(in)
		enc := json.NewEncoder(out)
		for {
			var t proto.Task
			if err := dec.Decode(&t); err != nil {
				return
			}
			r := safeRun(m, t.Hist)
			r.ID = t.ID
			enc.Encode(r)
			out.Flush()
		}
	case "replay":
		mk, ok := models[name]
		if !ok {
			fail("unknown model %s", name)
		}
		m, err := mk(opts)
		if err != nil {
			fail("model opts: %v", err)
		}
		var hist []string
		if err := json.Unmarshal([]byte(os.Args[4]), &hist); err != nil {
			fail("hist: %v", err)
		}
		r := safeRun(m, hist)
		b, _ := json.MarshalIndent(r, "", " ")
		fmt.Println(string(b))
	case "job":
		j, ok := jobs[name]
		if !ok {
			fail("unknown job %s", name)
		}
		res, err := j(opts)
		if err != nil {
			fail("job %s: %v", name, err)
		}
		b, _ := json.Marshal(res)
		fmt.Println(string(b))
	default:
		fail("unknown mode %s", mode)
	}
}

// panicOrigin reads a debug.Stack() dump taken inside a deferred recover: it returns the first
// function after the panic() frame that belongs either to the repository or to the harness
// (frames of the runtime and of third-party libraries in between are skipped), and a short
// list of the repository frames.
func panicOrigin(stack string) (origin, frames string) {
	lines := strings.Split(stack, "\n")
	start := -1
	for i, l := range lines {
		if strings.HasPrefix(l, "panic(") {
			start = i
		}
	}
	if start < 0 {
		return "", ""
	}
	var keep []string
	for _, l := range lines[start+1:] {
		if strings.HasPrefix(l, "\t") || l == "" {
			continue
		}
		isRepo := strings.HasPrefix(l, "massnet.org/mass-wallet/") && !strings.Contains(l, "/vshim.")
		isHarness := strings.HasPrefix(l, "vh/") || strings.HasPrefix(l, "main.")
		if origin == "" && (isRepo || isHarness) {
			origin = l
		}
		if isRepo && len(keep) < 5 {
			if k := strings.LastIndex(l, "("); k > 0 {
				keep = append(keep, strings.TrimPrefix(l[:k], "massnet.org/mass-wallet/"))
			}
		}
	}
	return origin, strings.Join(keep, " < ")
}

// safeRun executes the model in its own goroutine: a logging.CPrint(FATAL) inside wallet or
// node code ends in logrus.Exit, which the harness turns into runtime.Goexit (env.Init);
// the goroutine then simply ends and the trapped FATAL is reported.
func safeRun(m proto.Model, hist []string) *proto.Result {
	var r *proto.Result
	done := make(chan struct{})
	go func() {
		defer close(done)
		defer func() {
			if e := recover(); e != nil {
				st := string(debug.Stack())
				if origin, frames := panicOrigin(st); strings.HasPrefix(origin, "massnet.org/mass-wallet/") {
					// the panic was raised by (or below) a function of the repository while the model
					// drove it through its public / hooked entry points: the wallet process would have
					// died - a violation of whatever property the history belongs to, not a harness fault
					kh := sha256.Sum256([]byte(strings.Join(hist, ",")))
					r = &proto.Result{Viol: []string{fmt.Sprintf("the wallet code panicked: %v | %s", e, frames)}, KnownTags: []string{"wallet-panic"},
						Key: "panic:" + hex.EncodeToString(kh[:12]), Outcome: "panic", Info: map[string]int{"wallet_panics": 1}}
					return
				}
				r = &proto.Result{Err: fmt.Sprintf("panic in harness/model: %v\n%s", e, st)}
			}
		}()
		r = m.Run(hist)
	}()
	<-done
	if r == nil {
		f := env.TakeFatals()
		st := ""
		if len(f) > 0 {
			st = f[0].Stack
		}
		r = &proto.Result{Err: "goroutine ended by a FATAL log exit while replaying (uncaught by the model):\n" + st}
	}
	return r
}
