package main

import (
	"encoding/json"

	"vh/env"
	"vh/models/c11"
	"vh/proto"
)

func init() {
	models["c11"] = func(o json.RawMessage) (proto.Model, error) {
		var op c11.Opts
		if err := json.Unmarshal(o, &op); err != nil {
			return nil, err
		}
		op.Dir = env.Scratch()
		return c11.New(op), nil
	}
}
