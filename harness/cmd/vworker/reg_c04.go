package main

import (
	"encoding/json"

	"vh/models/c04"
	"vh/proto"
)

func init() {
	models["c04"] = func(o json.RawMessage) (proto.Model, error) {
		var op c04.Opts
		if err := json.Unmarshal(o, &op); err != nil {
			return nil, err
		}
		return c04.New(op), nil
	}
}
