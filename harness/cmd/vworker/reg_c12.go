package main

import (
	"encoding/json"

	"vh/models/c12"
	"vh/proto"
)

func init() {
	models["c12"] = func(o json.RawMessage) (proto.Model, error) {
		var op c12.Opts
		if err := json.Unmarshal(o, &op); err != nil {
			return nil, err
		}
		return c12.New(op), nil
	}
}
