// Package dbseam wraps the wallet's mwdb.DB interface (the seam NewWalletManager already
// offers): it counts and logs every call, can return an injected error from the i-th call
// that is able to fail, and can stop the world before the k-th commit (crash).
package dbseam

import (
	"errors"
	"fmt"
	"sync"

	mwdb "massnet.org/mass-wallet/masswallet/db"
)

// ErrInjected is the storage error injected by FailAt.
var ErrInjected = errors.New("verif: injected storage error")

// Crash is the panic value used to stop the world at a commit boundary.
type Crash struct{ Commit int }

// Plan says what the seam does.
type Plan struct {
	FailAt      int // index (0-based) of the fallible call to fail; -1 = none
	FailRepeat  int // number of consecutive fallible calls to fail starting at FailAt (>=1)
	CrashCommit int // index (0-based) of the commit before which the world stops; -1 = none
	// FailCommit > 0: the FailCommit-th commit boundary (1-based) reports an injected error
	// instead of being applied (once). Used by scheduler scenarios, where the index of a call
	// depends on the schedule but the order of commits of one thread does not.
	FailCommit int
}

// NoPlan does nothing.
var NoPlan = Plan{FailAt: -1, CrashCommit: -1}

// DB is the wrapper.
type DB struct {
	mu       sync.Mutex
	U        mwdb.DB
	Plan     Plan
	Calls    int // fallible calls so far
	Commits  int // commit boundaries reached so far (write transactions only)
	Injected int
	Log      []string
	KeepLog  bool
	Disarmed bool
	Closes   int
	// YieldRead, if set, is called before every read of the underlying store through a
	// READ transaction and before every commit of a write transaction (C17: these are the
	// scheduling gates of the placement enumeration).
	YieldRead func(kind string)
	// Committed counts write transactions whose commit has been applied.
	Committed int
	// Suspended > 0: calls made by the HARNESS itself (status queries while it decides which
	// events are enabled) pass through uncounted and are never failed.
	Suspended int
}

// Suspend / Resume bracket harness-own database use.
func (d *DB) Suspend() { d.mu.Lock(); d.Suspended++; d.mu.Unlock() }
func (d *DB) Resume()  { d.mu.Lock(); d.Suspended--; d.mu.Unlock() }

func (d *DB) yield(kind string) {
	if d.YieldRead != nil {
		d.YieldRead(kind)
	}
}

// Wrap returns a seam around u.
func Wrap(u mwdb.DB, p Plan) *DB { return &DB{U: u, Plan: p} }

// gate is called at every fallible call; it returns the injected error if this call is planned to fail.
func (d *DB) gate(kind string) error {
	d.mu.Lock()
	defer d.mu.Unlock()
	if d.Suspended > 0 {
		return nil
	}
	i := d.Calls
	d.Calls++
	if d.KeepLog {
		d.Log = append(d.Log, fmt.Sprintf("%d %s", i, kind))
	}
	if d.Disarmed || d.Plan.FailAt < 0 {
		return nil
	}
	rep := d.Plan.FailRepeat
	if rep < 1 {
		rep = 1
	}
	if i >= d.Plan.FailAt && i < d.Plan.FailAt+rep {
		d.Injected++
		return ErrInjected
	}
	return nil
}

func (d *DB) Close() error {
	d.mu.Lock()
	d.Closes++
	d.mu.Unlock()
	return d.U.Close()
}

func (d *DB) BeginTx() (mwdb.DBTransaction, error) {
	if err := d.gate("BeginTx"); err != nil {
		return nil, err
	}
	t, err := d.U.BeginTx()
	if err != nil {
		return nil, err
	}
	return &wtx{rtx: rtx{d: d, u: t}, w: t}, nil
}

func (d *DB) BeginReadTx() (mwdb.ReadTransaction, error) {
	if err := d.gate("BeginReadTx"); err != nil {
		return nil, err
	}
	d.yield("BeginReadTx")
	t, err := d.U.BeginReadTx()
	if err != nil {
		return nil, err
	}
	return &rtx{d: d, u: t, ro: true}, nil
}

type rtx struct {
	d  *DB
	u  mwdb.ReadTransaction
	ro bool
}

func (t *rtx) wrapB(b mwdb.Bucket) mwdb.Bucket {
	if b == nil {
		return nil
	}
	return &bucket{d: t.d, u: b, ro: t.ro}
}
func (t *rtx) TopLevelBucket(name string) mwdb.Bucket    { return t.wrapB(t.u.TopLevelBucket(name)) }
func (t *rtx) FetchBucket(m mwdb.BucketMeta) mwdb.Bucket { return t.wrapB(t.u.FetchBucket(m)) }
func (t *rtx) BucketNames() ([]string, error)            { return t.u.BucketNames() }
func (t *rtx) Rollback() error                           { return t.u.Rollback() }

type wtx struct {
	rtx
	w mwdb.DBTransaction
}

func (t *wtx) Commit() error {
	d := t.d
	d.mu.Lock()
	k := d.Commits
	d.Commits++
	crash := !d.Disarmed && d.Plan.CrashCommit >= 0 && k == d.Plan.CrashCommit
	failThis := !d.Disarmed && d.Plan.FailCommit > 0 && k+1 == d.Plan.FailCommit
	if failThis {
		d.Injected++
	}
	d.mu.Unlock()
	if failThis {
		t.w.Rollback() // the batch is dropped, as a failed leveldb.Write would leave it
		return ErrInjected
	}
	if crash {
		// the commit is NOT applied; nothing else is flushed; the caller never returns
		panic(Crash{Commit: k})
	}
	if err := d.gate("Commit"); err != nil {
		t.w.Rollback() // the batch is dropped, as a failed leveldb.Write would leave it
		return err
	}
	d.yield("Commit")
	err := t.w.Commit()
	if err == nil {
		d.mu.Lock()
		d.Committed++
		d.mu.Unlock()
	}
	return err
}
func (t *wtx) CreateTopLevelBucket(name string) (mwdb.Bucket, error) {
	if err := t.d.gate("CreateTopLevelBucket"); err != nil {
		return nil, err
	}
	b, err := t.w.CreateTopLevelBucket(name)
	if err != nil {
		return nil, err
	}
	return t.wrapB(b), nil
}
func (t *wtx) DeleteTopLevelBucket(name string) error { return t.w.DeleteTopLevelBucket(name) }

type bucket struct {
	d  *DB
	u  mwdb.Bucket
	ro bool
}

func (b *bucket) rd(kind string) {
	if b.ro {
		b.d.yield(kind)
	}
}

func (b *bucket) w(x mwdb.Bucket) mwdb.Bucket {
	if x == nil {
		return nil
	}
	return &bucket{d: b.d, u: x, ro: b.ro}
}
func (b *bucket) NewBucket(name string) (mwdb.Bucket, error) {
	if err := b.d.gate("NewBucket"); err != nil {
		return nil, err
	}
	x, err := b.u.NewBucket(name)
	if err != nil {
		return nil, err
	}
	return b.w(x), nil
}
func (b *bucket) Bucket(name string) mwdb.Bucket { return b.w(b.u.Bucket(name)) }
func (b *bucket) BucketNames() ([]string, error) { return b.u.BucketNames() }
func (b *bucket) DeleteBucket(name string) error {
	if err := b.d.gate("DeleteBucket"); err != nil {
		return err
	}
	return b.u.DeleteBucket(name)
}
func (b *bucket) Put(k, v []byte) error {
	if err := b.d.gate("Put"); err != nil {
		return err
	}
	return b.u.Put(k, v)
}
func (b *bucket) Delete(k []byte) error {
	if err := b.d.gate("Delete"); err != nil {
		return err
	}
	return b.u.Delete(k)
}
func (b *bucket) Get(k []byte) ([]byte, error) {
	if err := b.d.gate("Get"); err != nil {
		return nil, err
	}
	b.rd("Get")
	return b.u.Get(k)
}
func (b *bucket) Clear() error {
	if err := b.d.gate("Clear"); err != nil {
		return err
	}
	return b.u.Clear()
}
func (b *bucket) GetByPrefix(p []byte) ([]*mwdb.Entry, error) {
	if err := b.d.gate("GetByPrefix"); err != nil {
		return nil, err
	}
	b.rd("GetByPrefix")
	return b.u.GetByPrefix(p)
}
func (b *bucket) GetBucketMeta() mwdb.BucketMeta { return b.u.GetBucketMeta() }
func (b *bucket) NewIterator(r *mwdb.Range) mwdb.Iterator {
	b.rd("NewIterator")
	return &iter{d: b.d, u: b.u.NewIterator(r), fail: b.d.gate("Iterator") != nil}
}

type iter struct {
	d    *DB
	u    mwdb.Iterator
	fail bool
}

func (i *iter) Release() { i.u.Release() }
func (i *iter) Error() error {
	if i.fail {
		return ErrInjected
	}
	return i.u.Error()
}
func (i *iter) Seek(k []byte) bool {
	if i.fail {
		return false
	}
	return i.u.Seek(k)
}
func (i *iter) Next() bool {
	if i.fail {
		return false
	}
	return i.u.Next()
}
func (i *iter) Key() []byte   { return i.u.Key() }
func (i *iter) Value() []byte { return i.u.Value() }
