//go:build vinstr

// Package sched is the stateless, preemption-bounded depth-first explorer over the
// controlled scheduler (vshim) of the instrumented build.
package sched

import (
	"fmt"
	"time"

	"massnet.org/mass-wallet/masswallet/vshim"
)

// Exec is what one scenario execution reports besides the scheduler's own result.
type Exec struct {
	Viol    []string // property violations observed in this execution
	Known   []string // pattern tags of the violations (matched against known_findings.json by vcheck)
	Outcome string   // canonical observable outcome (for distinct-outcome counting)
}

// Scenario runs one execution under the given schedule prefix.
type Scenario func(prefix []int) (*vshim.Result, *Exec, error)

// Stats of an exploration.
type Stats struct {
	Executions   int
	Points       int
	MaxPoints    int
	Outcomes     map[string]int
	Violations   []Violation
	BoundDone    int
	Exhaustive   bool
	CapHit       string
	Deadlocks    int
	ReplayChecks int
	Samples      [][]string
}

// Violation is one violating schedule.
type Violation struct {
	Choices []int    `json:"choices"`
	Trace   []string `json:"trace"`
	Viol    []string `json:"viol"`
	Known   []string `json:"known,omitempty"`
}

type Explorer struct {
	Run      Scenario
	Bound    int
	Shard    int
	NShards  int
	MaxExec  int
	Deadline time.Time
	// YieldOnly: preempt the running thread only where it is parked at an explicit Yield
	// (database read / commit gates), without a bound on the number of such preemptions:
	// this enumerates every placement of one thread's gates among the other's.
	YieldOnly bool
	// Allow, if set, may veto alternative alt at point i of execution r (partial-order
	// reduction supplied by the scenario, with its own correctness argument).
	Allow func(r *vshim.Result, i int, alt int) bool
	// OnExec, if set, sees every recorded execution (job-level oracles).
	OnExec func(r *vshim.Result, x *Exec)
	St     *Stats
	top    int
	stop   bool
	perTag map[string]int
}

func preemption(p vshim.Point, alt int) bool {
	return p.RunningEnabled && p.Prev >= 0 && p.Alts[alt].Thread != p.Prev
}

func (e *Explorer) record(r *vshim.Result, x *Exec) {
	st := e.St
	st.Executions++
	st.Points += len(r.Points)
	if len(r.Points) > st.MaxPoints {
		st.MaxPoints = len(r.Points)
	}
	st.Outcomes[x.Outcome]++
	if r.Deadlock {
		st.Deadlocks++
	}
	if len(st.Samples) < 4 && st.Executions%37 == 1 {
		st.Samples = append(st.Samples, r.Trace)
	}
	if len(x.Viol) > 0 {
		// at most 20 kept per distinct tag list: counterexamples of one (possibly known)
		// pattern never crowd out those of another
		if e.perTag == nil {
			e.perTag = map[string]int{}
		}
		k := fmt.Sprint(x.Known)
		e.perTag[k]++
		if e.perTag[k] <= 20 {
			st.Violations = append(st.Violations, Violation{Choices: r.Choices, Trace: r.Trace, Viol: x.Viol, Known: x.Known})
		}
	}
}

// explore implements iterative context bounding for one bound value.
func (e *Explorer) explore(prefix []int, depth int) error {
	if e.stop {
		return nil
	}
	if e.MaxExec > 0 && e.St.Executions >= e.MaxExec {
		e.stop = true
		e.St.CapHit = fmt.Sprintf("execution cap %d reached", e.MaxExec)
		return nil
	}
	if !e.Deadline.IsZero() && time.Now().After(e.Deadline) {
		e.stop = true
		e.St.CapHit = "deadline reached"
		return nil
	}
	r, x, err := e.Run(prefix)
	if err != nil {
		return err
	}
	if r.ReplayError != "" {
		return fmt.Errorf("replay divergence on prefix %v: %s", prefix, r.ReplayError)
	}
	if r.HorizonHit {
		x.Viol = append(x.Viol, fmt.Sprintf("no quiescence within the horizon of %d steps (livelock?)", r.Steps))
	}
	if depth > 0 || e.Shard == 0 {
		if e.OnExec != nil {
			e.OnExec(r, x)
		}
		e.record(r, x)
	}
	cost := 0
	for j := 0; j < len(prefix) && j < len(r.Points); j++ {
		if preemption(r.Points[j], r.Points[j].Chosen) {
			cost++
		}
	}
	for i := len(prefix); i < len(r.Points); i++ {
		p := r.Points[i]
		for alt := 1; alt < len(p.Alts); alt++ {
			c := cost
			if preemption(p, alt) {
				if e.YieldOnly {
					if !p.PrevYield {
						continue
					}
				} else {
					c++
				}
			}
			if c > e.Bound {
				continue
			}
			if e.Allow != nil && !e.Allow(r, i, alt) {
				continue
			}
			if depth == 0 {
				e.top++
				if e.NShards > 1 && e.top%e.NShards != e.Shard {
					continue
				}
			}
			np := append(append([]int{}, r.Choices[:i]...), alt)
			if err := e.explore(np, depth+1); err != nil {
				return err
			}
			if e.stop {
				return nil
			}
		}
		if preemption(p, p.Chosen) {
			cost++
		}
	}
	return nil
}

// Explore runs the whole bounded search and a replay-determinism self-test first.
func (e *Explorer) Explore() error {
	e.St = &Stats{Outcomes: map[string]int{}, Exhaustive: true}
	// self-test: the default schedule replayed twice must give identical traces and outcomes
	r1, x1, err := e.Run(nil)
	if err != nil {
		return err
	}
	r2, x2, err := e.Run(r1.Choices)
	if err != nil {
		return err
	}
	if fmt.Sprint(r1.Trace) != fmt.Sprint(r2.Trace) || x1.Outcome != x2.Outcome {
		return fmt.Errorf("replay self-test failed: the same schedule produced different traces/outcomes\n%v\n%v", r1.Trace, r2.Trace)
	}
	e.St.ReplayChecks = 1
	if err := e.explore(nil, 0); err != nil {
		return err
	}
	e.St.BoundDone = e.Bound
	if e.stop {
		e.St.Exhaustive = false
	}
	return nil
}
