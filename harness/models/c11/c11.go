// Package c11 is the state space of property C11: sequences of wallet-database operations
// on the real ldb backend, compared after every step with a nested-map reference.
package c11

import (
	"bytes"
	"crypto/sha256"
	"encoding/hex"
	"encoding/json"
	"errors"
	"fmt"
	"sort"
	"strings"

	"github.com/syndtr/goleveldb/leveldb/storage"
	mwdb "massnet.org/mass-wallet/masswallet/db"
	"massnet.org/mass-wallet/masswallet/db/ldb"
	"vh/proto"
)

// Opts bound the search.
type Opts struct {
	MaxTx  int  `json:"max_tx"`  // write transactions per history
	MaxOps int  `json:"max_ops"` // mutations inside one write transaction
	Disk   bool `json:"disk"`    // use the real CreateDB/OpenDB path in a scratch directory
	Dir    string
	// Bulk > 0: the alphabet is reduced to transaction control, one key, Clear and two bulk
	// operations that put Bulk keys / delete every second one of them inside the open write
	// transaction (one operation each): transactions far larger than any internal buffer or
	// batch threshold must still be atomic, isolated and readable from inside.
	Bulk int `json:"bulk"`
	// Variant selects another bucket/key domain for a separate pass:
	//  "deep":     a chain of nested buckets down to depth 12 (two-digit depth prefixes of the key
	//              encoding), create/delete/put at depths 10..12 below a committed chain of depth 9;
	//  "encoding": keys and bucket names made of digits, separators and the bucket-index prefix,
	//              i.e. byte strings that look like the backend's own encoded keys;
	//  "reader":   a read transaction that stays open across commits of write transactions.
	Variant string `json:"variant"`
}

type Model struct {
	O   Opts
	seq int
}

func New(o Opts) *Model {
	setVariant(o.Variant)
	if o.MaxTx == 0 {
		o.MaxTx = 2
	}
	if o.MaxOps == 0 {
		o.MaxOps = 4
	}
	return &Model{O: o}
}

// ---- reference: nested maps ----

type rb struct {
	KV   map[string]string `json:"kv"`
	Subs map[string]*rb    `json:"subs"`
}

func newRB() *rb { return &rb{KV: map[string]string{}, Subs: map[string]*rb{}} }

func (b *rb) clone() *rb {
	c := newRB()
	for k, v := range b.KV {
		c.KV[k] = v
	}
	for k, v := range b.Subs {
		c.Subs[k] = v.clone()
	}
	return c
}

type rdb struct {
	Top map[string]*rb `json:"top"`
}

func (d *rdb) clone() *rdb {
	c := &rdb{Top: map[string]*rb{}}
	for k, v := range d.Top {
		c.Top[k] = v.clone()
	}
	return c
}

func (d *rdb) lookup(path string) *rb {
	p := strings.Split(path, "/")
	b := d.Top[p[0]]
	for _, n := range p[1:] {
		if b == nil {
			return nil
		}
		b = b.Subs[n]
	}
	return b
}

var (
	// "xx" is a sibling of "x" whose name starts with x's name; "a\xff" is a key that is a
	// 0xff-suffixed prefix of nothing and sorts directly below "b"
	buckets = []string{"x", "x/s", "xx"}
	keys    = []string{"a", "a_s", "b", "\xff", "a\xff"}
	vals    = []string{"1", "2"}
	prefs   = []string{"", "a", "a_", "\xff", "b", "a\xff"}
)

var (
	nestOps    = []string{"x/s"}                    // nested buckets created/deleted by nb/db
	topOps     = []string{"xx"}                     // top-level buckets created by ct
	extraPaths = []string{"z", "x/t", "xx/s", "y"}  // never-created buckets that are probed
	extraKeys  = []string{"zz", "a_", "s"}          // never-written keys that are probed
	setupOps   []string                             // committed before the explored history
	readerOps  bool
	updateOps  = []string{"U:x:a:1", "U:x:a:2", "Uerr:x:a:2", "Uerr:x:b:1"}
)

func chainPath(depth int) string {
	p := "x"
	for k := 2; k <= depth; k++ {
		p += fmt.Sprintf("/n%d", k)
	}
	return p
}

// setVariant installs the bucket/key domain of a pass (one model configuration per worker process).
func setVariant(v string) {
	switch v {
	case "deep":
		buckets = []string{"x", chainPath(9), chainPath(10), chainPath(11), chainPath(12)}
		keys = []string{"a", "b"}
		vals = []string{"1"}
		prefs = []string{"", "a"}
		nestOps = []string{chainPath(10), chainPath(11), chainPath(12)}
		topOps = nil
		extraPaths = []string{chainPath(9) + "/q", chainPath(11) + "/q", "y"}
		setupOps = []string{"bw"}
		for k := 2; k <= 9; k++ {
			setupOps = append(setupOps, "nb:"+chainPath(k))
		}
		setupOps = append(setupOps, "put:"+chainPath(9)+":61:1", "cm")
		updateOps = nil
	case "encoding":
		buckets = []string{"x", "x/s", "1", "x/2"}
		keys = []string{"1_x_a", "2_x_s_a", "b_2_x_s", "a"}
		vals = []string{"1", "2"}
		prefs = []string{"", "1_", "2_x_s", "b_", "a"}
		nestOps = []string{"x/s", "x/2"}
		topOps = []string{"1"}
		extraPaths = []string{"2", "x/1", "1/x", "b"}
		extraKeys = []string{"x_a", "s_a", "2_x_s", "1_x"}
		updateOps = []string{"U:x:1_x_a:1", "Uerr:x:2_x_s_a:2"}
	case "reader":
		buckets = []string{"x", "x/s"}
		keys = []string{"a", "b"}
		vals = []string{"1", "2"}
		prefs = []string{"", "a"}
		topOps = nil
		readerOps = true
		updateOps = []string{"U:x:a:1"}
	}
}

// Alphabet of mutations.
func alphabet(o Opts) []string {
	if o.Bulk > 0 {
		return []string{"bw", "cm", "rb", "ro", "nb:x/s", fmt.Sprintf("bulk:x:%d", o.Bulk), fmt.Sprintf("bulkdel:x:%d", o.Bulk), fmt.Sprintf("bulk:x/s:%d", o.Bulk),
			"put:x:61:1", "del:x:61", "clr:x", "Uerr:x:a:2"}
	}
	a := []string{"bw", "cm", "rb", "ro"}
	if readerOps {
		a = append(a, "br", "er")
	}
	for _, t := range topOps {
		a = append(a, "ct:"+t)
	}
	for _, n := range nestOps {
		a = append(a, "nb:"+n, "db:"+n)
	}
	for _, b := range buckets {
		for _, k := range keys {
			for _, v := range vals {
				a = append(a, fmt.Sprintf("put:%s:%s:%s", b, hex.EncodeToString([]byte(k)), v))
			}
			a = append(a, fmt.Sprintf("del:%s:%s", b, hex.EncodeToString([]byte(k))))
		}
		a = append(a, "clr:"+b, fmt.Sprintf("put:%s:%s:", b, hex.EncodeToString([]byte("a"))), fmt.Sprintf("put:%s::1", b))
	}
	// one-shot transactions through db.Update: commit, and closure error (must leave no trace)
	a = append(a, updateOps...)
	return a
}

// system under test
type sut struct {
	stor  storage.Storage
	dir   string
	db    mwdb.DB
	wtx   mwdb.DBTransaction
	ref   *rdb // committed
	ovl   *rdb // open write transaction's view (nil if none)
	dirty map[string]bool
	ntx   int
	nops  int
	viol  []string
	tags  map[string]bool
	note  map[string]int
	// a read transaction kept open across later commits ("reader" variant): rcands are the
	// committed states since it began - what it shows must be exactly ONE of them
	rtx    mwdb.ReadTransaction
	rcands []*rdb
}

func (s *sut) fail(tag, f string, a ...interface{}) {
	m := fmt.Sprintf(f, a...)
	if len(m) > 1500 { // bulk passes: thousands of keys
		m = m[:700] + fmt.Sprintf(" ...[%d bytes]... ", len(m)-1400) + m[len(m)-700:]
	}
	s.viol = append(s.viol, m)
	s.tags[tag] = true
}

func (s *sut) open() error {
	var err error
	if s.stor != nil {
		s.db, err = ldb.VerifOpenStorage(s.stor, 1<<20)
	} else if s.db == nil && s.ntx == -1 {
		s.db, err = mwdb.CreateDB("leveldb", s.dir)
	} else {
		s.db, err = mwdb.OpenDB("leveldb", s.dir)
	}
	return err
}

func implBucket(tx mwdb.ReadTransaction, path string) mwdb.Bucket {
	p := strings.Split(path, "/")
	b := tx.TopLevelBucket(p[0])
	for _, n := range p[1:] {
		if b == nil {
			return nil
		}
		b = b.Bucket(n)
	}
	return b
}

func sortedKeys(m map[string]string) []string {
	var k []string
	for x := range m {
		k = append(k, x)
	}
	sort.Strings(k)
	return k
}

// observe compares everything readable through tx with the reference view d.
// committedView: iteration order is required (read transaction / clean state).
func (s *sut) observe(tx mwdb.ReadTransaction, d *rdb, where string, iter bool) {
	// top-level listing
	names, err := tx.BucketNames()
	if err != nil {
		s.fail("listing", "%s: BucketNames error %v", where, err)
	} else {
		var want []string
		for k := range d.Top {
			want = append(want, k)
		}
		sort.Strings(want)
		got := append([]string{}, names...)
		sort.Strings(got)
		if strings.Join(got, ",") != strings.Join(want, ",") {
			s.fail("listing", "%s: top-level BucketNames=%v want %v", where, got, want)
		}
	}
	for _, path := range append(append([]string{}, buckets...), extraPaths...) {
		rbk := d.lookup(path)
		ib := implBucket(tx, path)
		if rbk == nil {
			if ib != nil {
				s.fail("stale-bucket-handle", "%s: bucket %q does not exist (never created, or deleted earlier in this transaction) but a handle is returned", where, path)
			}
			continue
		}
		if ib == nil {
			s.fail("bucket-missing", "%s: bucket %q exists but cannot be opened", where, path)
			continue
		}
		for _, k := range append(append([]string{}, keys...), extraKeys...) {
			v, err := ib.Get([]byte(k))
			want, ok := rbk.KV[k]
			if err != nil {
				s.fail("get", "%s: %s.Get(%q) error %v", where, path, k, err)
			} else if ok && string(v) != want {
				s.fail("get", "%s: %s.Get(%q)=%q want %q", where, path, k, v, want)
			} else if !ok && v != nil {
				s.fail("get", "%s: %s.Get(%q)=%q want nothing (key of another bucket / deleted / never written)", where, path, k, v)
			}
		}
		for _, p := range prefs {
			es, err := ib.GetByPrefix([]byte(p))
			if err != nil {
				s.fail("prefix", "%s: %s.GetByPrefix(%q) error %v", where, path, p, err)
				continue
			}
			got := map[string]string{}
			for _, e := range es {
				if _, dup := got[string(e.Key)]; dup {
					s.fail("prefix", "%s: %s.GetByPrefix(%q) returns key %q twice", where, path, p, e.Key)
				}
				got[string(e.Key)] = string(e.Value)
			}
			want := map[string]string{}
			for k, v := range rbk.KV {
				if strings.HasPrefix(k, p) {
					want[k] = v
				}
			}
			if fmt.Sprint(got) != fmt.Sprint(want) {
				s.fail("prefix", "%s: %s.GetByPrefix(%q)=%q want %q", where, path, p, got, want)
			}
			if iter && where != "" {
				gotOrder := ""
				for _, e := range es {
					gotOrder += string(e.Key) + "|"
				}
				wantOrder := ""
				for _, k := range sortedKeys(want) {
					wantOrder += k + "|"
				}
				if gotOrder != wantOrder {
					s.fail("prefix-order", "%s: %s.GetByPrefix(%q) order %q want ascending %q", where, path, p, gotOrder, wantOrder)
				}
			}
		}
		sn, err := ib.BucketNames()
		if err != nil {
			s.fail("listing", "%s: %s.BucketNames error %v", where, path, err)
		} else {
			var want []string
			for k := range rbk.Subs {
				want = append(want, k)
			}
			sort.Strings(want)
			got := append([]string{}, sn...)
			sort.Strings(got)
			if strings.Join(got, ",") != strings.Join(want, ",") {
				s.fail("listing", "%s: %s.BucketNames=%v want %v", where, path, got, want)
			}
		}
		// iteration
		type rng struct {
			name         string
			start, limit []byte
			pref         bool
		}
		rs := []rng{{"all", nil, nil, false}, {"prefix a", []byte("a"), nil, true}, {"prefix a_", []byte("a_"), nil, true}, {"prefix ff", []byte("\xff"), nil, true}, {"prefix a\\xff", []byte("a\xff"), nil, true},
			{"[a,b)", []byte("a"), []byte("b"), false}, {"[a_,\\xff)", []byte("a_"), []byte("\xff"), false}, {"[b,)", []byte("b"), nil, false}}
		for _, r := range rs {
			var sl *mwdb.Range
			if r.pref {
				sl = mwdb.BytesPrefix(append([]byte{}, r.start...))
			} else if r.start != nil || r.limit != nil {
				sl = &mwdb.Range{Start: append([]byte{}, r.start...), Limit: append([]byte{}, r.limit...)}
			}
			it := ib.NewIterator(sl)
			var got []string
			for it.Next() {
				got = append(got, string(it.Key())+"="+string(it.Value()))
				if len(got) > len(rbk.KV)+50 { // an iterator that never ends
					break
				}
			}
			ierr := it.Error()
			it.Release()
			var want []string
			for _, k := range sortedKeys(rbk.KV) {
				in := true
				if r.pref {
					in = strings.HasPrefix(k, string(r.start))
				} else {
					if r.start != nil && k < string(r.start) {
						in = false
					}
					if r.limit != nil && k >= string(r.limit) {
						in = false
					}
				}
				if in {
					want = append(want, k+"="+rbk.KV[k])
				}
			}
			if iter {
				if ierr != nil || strings.Join(got, ",") != strings.Join(want, ",") {
					s.fail("iterate", "%s: %s iterate %s = %q (err %v) want %q", where, path, r.name, got, ierr, want)
				}
			} else if strings.Join(got, ",") != strings.Join(want, ",") {
				s.note["dirty_iteration_differs_from_merged_view"]++ // not required by C11 (iteration of uncommitted data)
			}
		}
		if iter { // Seek
			for _, sk := range []string{"a", "a_t", "b", "c", "\xff"} {
				it := ib.NewIterator(nil)
				ok := it.Seek([]byte(sk))
				gotK := ""
				if ok {
					gotK = string(it.Key())
				}
				it.Release()
				wantK, wantOK := "", false
				for _, k := range sortedKeys(rbk.KV) {
					if k >= sk {
						wantK, wantOK = k, true
						break
					}
				}
				if ok != wantOK || gotK != wantK {
					s.fail("seek", "%s: %s Seek(%q)=%v,%q want %v,%q", where, path, sk, ok, gotK, wantOK, wantK)
				}
			}
		}
	}
}

// splitParent splits a bucket path into (parent path, last name).
func splitParent(path string) [2]string {
	i := strings.LastIndex(path, "/")
	return [2]string{path[:i], path[i+1:]}
}

func hx(s string) string { b, _ := hex.DecodeString(s); return string(b) }

// apply executes one mutation on both systems. enabled=false: not applicable here.
func (s *sut) apply(op string, o Opts) (enabled bool, err error) {
	p := strings.Split(op, ":")
	switch p[0] {
	case "bw":
		if s.wtx != nil || s.ntx >= o.MaxTx {
			return false, nil
		}
		tx, err := s.db.BeginTx()
		if err != nil {
			return true, err
		}
		s.wtx, s.ovl, s.dirty, s.nops = tx, s.ref.clone(), map[string]bool{}, 0
		s.ntx++
		return true, nil
	case "br":
		if s.rtx != nil {
			return false, nil
		}
		rt, err := s.db.BeginReadTx()
		if err != nil {
			return true, err
		}
		s.rtx, s.rcands = rt, []*rdb{s.ref.clone()}
		return true, nil
	case "er":
		if s.rtx == nil {
			return false, nil
		}
		if err := s.rtx.Rollback(); err != nil {
			s.fail("rollback", "read transaction Rollback error %v", err)
		}
		s.rtx, s.rcands = nil, nil
		return true, nil
	case "cm", "rb":
		if s.wtx == nil {
			return false, nil
		}
		if p[0] == "cm" {
			if err := s.wtx.Commit(); err != nil {
				s.fail("commit", "Commit error %v", err)
			}
			s.ref = s.ovl
			if s.rtx != nil {
				s.rcands = append(s.rcands, s.ref.clone())
			}
		} else if err := s.wtx.Rollback(); err != nil {
			s.fail("rollback", "Rollback error %v", err)
		}
		s.wtx, s.ovl, s.dirty = nil, nil, nil
		return true, nil
	case "ro":
		if s.wtx != nil || s.ntx == 0 || s.rtx != nil {
			return false, nil
		}
		if err := s.db.Close(); err != nil {
			return true, err
		}
		return true, s.open()
	case "U", "Uerr":
		if s.wtx != nil || s.ntx >= o.MaxTx {
			return false, nil
		}
		s.ntx++
		sentinel := errors.New("closure failed")
		err := mwdb.Update(s.db, func(tx mwdb.DBTransaction) error {
			b := implBucket(tx, p[1])
			if b == nil {
				return errors.New("no bucket")
			}
			if err := b.Put([]byte(p[2]), []byte(p[3])); err != nil {
				return err
			}
			if p[0] == "Uerr" {
				return sentinel
			}
			return nil
		})
		if p[0] == "U" {
			if err != nil {
				s.fail("update", "db.Update(put) failed: %v", err)
			} else {
				s.ref.lookup(p[1]).KV[p[2]] = p[3]
				if s.rtx != nil {
					s.rcands = append(s.rcands, s.ref.clone())
				}
			}
		} else if err != sentinel {
			s.fail("update", "db.Update returned %v instead of the closure's error", err)
		}
		return true, nil
	}
	// operations inside the open write transaction
	if s.wtx == nil || s.nops >= o.MaxOps {
		return false, nil
	}
	s.nops++
	switch p[0] {
	case "ct":
		if _, ok := s.ovl.Top[p[1]]; ok {
			// creating a bucket that already exists (possibly created earlier in this same
			// transaction) may report ErrBucketExist or succeed idempotently: C11 does not say
			_, err := s.wtx.CreateTopLevelBucket(p[1])
			if err != nil && err != mwdb.ErrBucketExist {
				s.fail("create", "CreateTopLevelBucket(%q) on an existing bucket returned %v", p[1], err)
			}
			return true, nil
		}
		if _, err := s.wtx.CreateTopLevelBucket(p[1]); err != nil {
			s.fail("create", "CreateTopLevelBucket(%q) error %v", p[1], err)
			return true, nil
		}
		s.ovl.Top[p[1]] = newRB()
	case "nb":
		pp := splitParent(p[1])
		parent := s.ovl.lookup(pp[0])
		ib := implBucket(s.wtx, pp[0])
		if parent == nil || ib == nil {
			return false, nil
		}
		_, err := ib.NewBucket(pp[1])
		if _, ok := parent.Subs[pp[1]]; ok {
			if err != nil && err != mwdb.ErrBucketExist {
				s.fail("create", "NewBucket(%q) on an existing bucket returned %v", p[1], err)
			}
			return true, nil
		}
		if err != nil {
			s.fail("create", "NewBucket(%q) error %v", p[1], err)
			return true, nil
		}
		parent.Subs[pp[1]] = newRB()
	case "db":
		pp := splitParent(p[1])
		parent := s.ovl.lookup(pp[0])
		ib := implBucket(s.wtx, pp[0])
		if parent == nil || ib == nil {
			return false, nil
		}
		if err := ib.DeleteBucket(pp[1]); err != nil {
			s.fail("delete-bucket", "DeleteBucket(%q) error %v", p[1], err)
		}
		delete(parent.Subs, pp[1])
	case "bulk", "bulkdel":
		rbk := s.ovl.lookup(p[1])
		if rbk == nil {
			return false, nil
		}
		ib := implBucket(s.wtx, p[1])
		if ib == nil {
			s.fail("bucket-missing", "bucket %q exists in the transaction but cannot be opened", p[1])
			return true, nil
		}
		n := 0
		fmt.Sscan(p[2], &n)
		for i := 0; i < n; i++ {
			k := fmt.Sprintf("k%06d", i)
			if p[0] == "bulk" {
				v := fmt.Sprintf("v%d", i%7)
				if err := ib.Put([]byte(k), []byte(v)); err != nil {
					s.fail("put", "%s.Put(%q) (bulk, %d of %d) error %v", p[1], k, i, n, err)
					return true, nil
				}
				rbk.KV[k] = v
			} else if i%2 == 0 {
				if err := ib.Delete([]byte(k)); err != nil {
					s.fail("delete", "%s.Delete(%q) (bulk, %d of %d) error %v", p[1], k, i, n, err)
					return true, nil
				}
				delete(rbk.KV, k)
			}
		}
		s.dirty[p[1]] = true
	case "put", "del", "clr":
		rbk := s.ovl.lookup(p[1])
		if rbk == nil {
			return false, nil // the bucket does not exist in this transaction's view
		}
		ib := implBucket(s.wtx, p[1])
		if ib == nil {
			s.fail("bucket-missing", "bucket %q exists in the transaction but cannot be opened", p[1])
			return true, nil
		}
		switch p[0] {
		case "put":
			k, v := hx(p[2]), p[3]
			err := ib.Put([]byte(k), []byte(v))
			if k == "" || v == "" {
				if err == nil {
					s.fail("put", "%s.Put(%q,%q) accepted an empty key/value", p[1], k, v)
				}
				return true, nil
			}
			if err != nil {
				s.fail("put", "%s.Put(%q,%q) error %v", p[1], k, v, err)
				return true, nil
			}
			rbk.KV[k] = v
		case "del":
			k := hx(p[2])
			if err := ib.Delete([]byte(k)); err != nil {
				s.fail("delete", "%s.Delete(%q) error %v", p[1], k, err)
			}
			delete(rbk.KV, k)
		case "clr":
			if err := ib.Clear(); err != nil {
				s.fail("clear", "%s.Clear error %v", p[1], err)
			}
			rbk.KV = map[string]string{}
		}
		s.dirty[p[1]] = true
	default:
		return false, fmt.Errorf("unknown op %q", op)
	}
	return true, nil
}

// Run implements proto.Model.
func (m *Model) Run(hist []string) *proto.Result {
	r := &proto.Result{Info: map[string]int{}}
	s := &sut{tags: map[string]bool{}, note: map[string]int{}, ref: &rdb{Top: map[string]*rb{}}}
	if m.O.Disk {
		m.seq++
		s.dir = fmt.Sprintf("%s/c11-%d", m.O.Dir, m.seq)
		s.ntx = -1
		defer removeAll(s.dir)
	} else {
		s.stor = storage.NewMemStorage()
	}
	if err := s.open(); err != nil {
		r.Err = "open: " + err.Error()
		return r
	}
	s.ntx = 0
	defer func() {
		if s.rtx != nil {
			s.rtx.Rollback()
		}
		if s.wtx != nil {
			s.wtx.Rollback()
		}
		s.db.Close()
	}()
	// setup: bucket x with two committed keys, so that overlays meet committed data
	err := mwdb.Update(s.db, func(tx mwdb.DBTransaction) error {
		b, err := tx.CreateTopLevelBucket("x")
		if err != nil {
			return err
		}
		if err := b.Put([]byte("a"), []byte("0")); err != nil {
			return err
		}
		return b.Put([]byte("b"), []byte("0"))
	})
	if err != nil {
		r.Err = "setup: " + err.Error()
		return r
	}
	s.ref.Top["x"] = newRB()
	s.ref.Top["x"].KV["a"] = "0"
	s.ref.Top["x"].KV["b"] = "0"
	// isolation between databases: this database was created a moment ago and one transaction
	// wrote two keys to it - nothing else may be readable (a write transaction of ANOTHER
	// database that was rolled back earlier in this process must not surface here)
	ovl0 := s.ovl
	s.ovl = nil
	mwdb.View(s.db, func(tx mwdb.ReadTransaction) error {
		s.observe(tx, s.ref, "fresh database after its first commit", true)
		return nil
	})
	s.ovl = ovl0
	// variant setup: committed before the explored history (not counted in the budgets)
	for _, op := range setupOps {
		ok, err := s.apply(op, Opts{MaxTx: 1 << 20, MaxOps: 1 << 20})
		if err != nil || !ok {
			r.Err = fmt.Sprintf("variant setup %s: enabled=%v err=%v", op, ok, err)
			return r
		}
	}
	s.ntx, s.nops = 0, 0
	stop := len(s.viol) > 0
	for i, op := range hist {
		if stop {
			break
		}
		ok, err := s.apply(op, m.O)
		if err != nil {
			r.Err = fmt.Sprintf("op %d %s: %v", i, op, err)
			return r
		}
		if !ok {
			if len(s.viol) > 0 {
				// an earlier operation already deviated from the model (reported below): what the
				// model enables next need not be possible on the implementation any more
				stop = true
				break
			}
			r.Err = fmt.Sprintf("op %d %s not enabled on replay", i, op)
			return r
		}
	}
	// oracle
	if s.wtx != nil {
		// iteration order/content is required only while the transaction has not written
		// anything yet (committed data); afterwards it is observed, not required
		s.observe(s.wtx, s.ovl, "inside the write transaction", s.nops == 0)
	}
	err = mwdb.View(s.db, func(tx mwdb.ReadTransaction) error {
		s.observe(tx, s.ref, "read transaction", true)
		return nil
	})
	if err != nil {
		s.fail("view", "db.View error %v", err)
	}
	if s.rtx != nil {
		// the open read transaction must show exactly one committed state between its begin
		// and now (C11: a commit becomes visible all together): every candidate is compared
		// completely; it is a violation if none matches
		saveV, saveT := s.viol, s.tags
		matched := -1
		var first []string
		for ci, cand := range s.rcands {
			s.viol, s.tags = nil, map[string]bool{}
			s.observe(s.rtx, cand, fmt.Sprintf("read transaction opened %d commit(s) ago", len(s.rcands)-1), true)
			if len(s.viol) == 0 {
				matched = ci
				break
			}
			if ci == 0 {
				first = s.viol
			}
		}
		s.viol, s.tags = saveV, saveT
		if matched < 0 {
			s.fail("reader-mixes-commits", "a read transaction that stayed open across %d commit(s) shows none of the %d committed states completely (differences from the state at its begin follow)", len(s.rcands)-1, len(s.rcands))
			for _, v := range first {
				s.fail("reader-mixes-commits", "%s", v)
			}
		} else {
			s.note[fmt.Sprintf("reader_sees_state_%d_of_%d", matched, len(s.rcands))]++
		}
	}
	r.Viol = s.viol
	for t := range s.tags {
		r.KnownTags = append(r.KnownTags, t)
	}
	sort.Strings(r.KnownTags)
	for k, v := range s.note {
		r.Info[k] = v
	}
	// key
	kb, _ := json.Marshal(map[string]interface{}{"ref": s.ref, "ovl": s.ovl, "open": s.wtx != nil, "dirty": s.dirty, "ntx": s.ntx, "nops": s.nops, "reader": s.rcands})
	h := sha256.Sum256(kb)
	r.Key = hex.EncodeToString(h[:16])
	ob, _ := json.Marshal(map[string]interface{}{"ref": s.ref, "ovl": s.ovl})
	h2 := sha256.Sum256(ob)
	r.Outcome = hex.EncodeToString(h2[:8])
	r.Quiescent = s.wtx == nil
	// successors
	for _, op := range alphabet(m.O) {
		if enabledOp(s, op, m.O) {
			r.Succ = append(r.Succ, op)
		}
	}
	return r
}

// enabledOp mirrors the enabledness conditions of apply without executing anything.
func enabledOp(s *sut, op string, o Opts) bool {
	p := strings.Split(op, ":")
	switch p[0] {
	case "bw", "U", "Uerr":
		if p[0] != "bw" && s.ref.lookup(p[1]) == nil {
			return false
		}
		return s.wtx == nil && s.ntx < o.MaxTx
	case "cm", "rb":
		return s.wtx != nil
	case "ro":
		return s.wtx == nil && s.ntx > 0 && s.rtx == nil
	case "br":
		return s.rtx == nil
	case "er":
		return s.rtx != nil
	}
	if s.wtx == nil || s.nops >= o.MaxOps {
		return false
	}
	switch p[0] {
	case "ct":
		return true
	case "nb", "db":
		return s.ovl.lookup(splitParent(p[1])[0]) != nil
	default:
		return s.ovl.lookup(p[1]) != nil
	}
}

var _ = bytes.Equal
