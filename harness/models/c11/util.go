package c11

import "os"

func removeAll(d string) { os.RemoveAll(d) }
