// Package c04 is the shared state space of C04 (identity/addresses are a function of the
// mnemonic; keys match addresses) and C05 (secrets never in clear; only the right
// passphrase unlocks): sequences of create / new address / sign / export / import keystore /
// import mnemonic / restart / public-passphrase change across up to three instances.
package c04

import (
	"bytes"
	"crypto/sha256"
	"encoding/hex"
	"encoding/json"
	"fmt"
	"golang.org/x/crypto/nacl/secretbox"
	"os"
	"path/filepath"
	"sort"
	"strconv"
	"strings"

	"github.com/btcsuite/btcd/btcec"
	"github.com/massnetorg/mass-core/massutil"
	mwdb "massnet.org/mass-wallet/masswallet/db"
	"massnet.org/mass-wallet/masswallet/db/ldb"
	"massnet.org/mass-wallet/masswallet/keystore"
	"vh/enum"
	"vh/env"
	"vh/inst"
	"vh/proto"
	"vh/simnode"
)

type Opts struct {
	MaxInst int   `json:"max_inst"`
	MaxAddr int   `json:"max_addr"`
	Bits    []int `json:"bits"`
	Gap     int   `json:"gap"`
	// Prop ("C04" or "C05"): only the violations of that property are reported. The two
	// checks share this state space; a state that violates only the sibling property must
	// not count as violating here (violating states are not expanded).
	Prop string `json:"prop"`
}

type Model struct {
	O   Opts
	seq int
}

func New(o Opts) *Model {
	if o.MaxInst == 0 {
		o.MaxInst = 3
	}
	if o.MaxAddr == 0 {
		o.MaxAddr = 3
	}
	if len(o.Bits) == 0 {
		o.Bits = []int{128, 160, 192, 224, 256}
	}
	if o.Gap == 0 {
		o.Gap = 20
	}
	return &Model{O: o}
}

const (
	Pass     = "privpassA1"
	NewPass  = "privpassB9"
	pubPass0 = inst.PubPass
	// of other lengths than pubPass0 (a cached copy of the old length would mangle them)
	pubPass1 = "pubpassV2"
	pubPass2 = "publicpassVerifLonger3"
)

type ist struct {
	I        *inst.Inst
	pubIdx   int
	issued   []string // addresses returned by NewAddress on this instance, in order (nil entry = not issued here)
	classes  []bool   // staking?
	nKnown   int      // addresses the instance holds (issued or discovered)
	unlocked bool
	how      string
	nInt     int  // internal-branch addresses the instance was imported with
	second   bool // a second wallet was created on this instance
}

type run struct {
	m       *Model
	n       *simnode.Node
	insts   []*ist
	id      string
	mnem    string
	bits    int
	ref     *enum.RefWallet
	export  string
	expN    int
	expInt  int
	viol    []string
	errs    []string // every error string returned by a failing operation
	secrets map[string][]byte
}

func (r *run) fail(prop, f string, a ...interface{}) {
	r.viol = append(r.viol, prop+": "+fmt.Sprintf(f, a...))
}

var (
	zkMnemonic string
	zkIndex    uint32
	zkErr      error
	zkDone     bool
)

func shortKeyMnemonic() (string, uint32, error) {
	if !zkDone {
		zkMnemonic, zkIndex, zkErr = enum.ShortChildKeyMnemonic(Pass, 2)
		zkDone = true
	}
	return zkMnemonic, zkIndex, zkErr
}

func pubOf(i int) string {
	return []string{pubPass0, pubPass1, pubPass2}[i%3]
}

func (r *run) newInst(how string) (*ist, error) {
	i, err := inst.OpenAt(inst.NewMemStore(), r.n, uint32(r.m.O.Gap), pubPass0, nil)
	if err != nil {
		return nil, err
	}
	i.W.VerifInitTaskChan()
	s := &ist{I: i, how: how}
	r.insts = append(r.insts, s)
	return s, nil
}

// makeReady runs the background import of a freshly imported wallet to completion.
func (r *run) makeReady(s *ist) error {
	s.I.W.VerifDrainTasks()
	for k := 0; k < 5; k++ {
		fin, err := s.I.W.VerifRunImportStep(r.id)
		if err != nil {
			return err
		}
		if fin {
			break
		}
	}
	_, err := s.I.W.UseWallet(r.id)
	return err
}

func (r *run) count(s *ist) int {
	a, err := s.I.W.VerifKeystoreManager().GetAddrs(r.id)
	if err != nil {
		return -1
	}
	// external addresses only (an instance imported with internal addresses holds nInt more)
	for _, s2 := range r.insts {
		if s2 == s {
			return len(a) - s.nInt
		}
	}
	return len(a)
}

func (r *run) apply(ev string) (bool, error) {
	p := strings.Split(ev, ":")
	at := func() *ist {
		k, _ := strconv.Atoi(p[1])
		if k >= len(r.insts) {
			return nil
		}
		return r.insts[k]
	}
	switch p[0] {
	case "createz":
		// the wallet of a mnemonic chosen so that one of its first two addresses has a child
		// private key with a leading zero byte (stored unpadded): enters through the mnemonic
		// import, everything else is as for a created wallet
		if len(r.insts) != 0 {
			return false, nil
		}
		mn, idx, err := shortKeyMnemonic()
		if err != nil {
			return true, err
		}
		s, err := r.newInst("imported short-leaf-key mnemonic")
		if err != nil {
			return true, err
		}
		ws, err := s.I.W.ImportWalletWithMnemonic(&keystore.WalletParams{Mnemonic: mn, PrivatePassphrase: []byte(Pass), Remarks: "z",
			ExternalIndex: idx + 1, AddressGapLimit: uint32(r.m.O.Gap)})
		if err != nil {
			return true, fmt.Errorf("import of the short-leaf-key mnemonic: %v", err)
		}
		r.id, r.mnem, r.bits = ws.WalletID, mn, 128
		ref, err := enum.NewRefWallet(mn, Pass)
		if err != nil {
			return true, err
		}
		r.ref = ref
		r.collectSecrets()
		return true, r.makeReady(s)
	case "create":
		if len(r.insts) != 0 {
			return false, nil
		}
		s, err := r.newInst("created")
		if err != nil {
			return true, err
		}
		bits, _ := strconv.Atoi(p[1])
		id, mn, _, err := s.I.W.CreateWallet(Pass, "w", bits)
		if err != nil {
			return true, err
		}
		r.id, r.mnem, r.bits = id, mn, bits
		if _, err := s.I.W.UseWallet(id); err != nil {
			return true, err
		}
		ref, err := enum.NewRefWallet(mn, Pass)
		if err != nil {
			return true, err
		}
		r.ref = ref
		r.collectSecrets()
		return true, nil
	case "addr":
		s := at()
		if s == nil || r.count(s) >= r.m.O.MaxAddr {
			return false, nil
		}
		class := uint16(massutil.AddressClassWitnessV0)
		if p[2] == "t" {
			class = massutil.AddressClassWitnessStaking
		}
		a, err := s.I.W.NewAddress(class)
		if err != nil {
			return true, fmt.Errorf("NewAddress: %v", err)
		}
		idx := r.count(s) - 1
		for len(s.issued) < idx {
			s.issued = append(s.issued, "")
			s.classes = append(s.classes, false)
		}
		s.issued = append(s.issued, a)
		s.classes = append(s.classes, p[2] == "t")
		return true, nil
	case "sign":
		s := at()
		if s == nil || r.count(s) == 0 {
			return false, nil
		}
		r.signAll(s, true)
		s.unlocked = true
		return true, nil
	case "export":
		s := at()
		if s == nil {
			return false, nil
		}
		j, err := s.I.W.ExportWallet(r.id, Pass)
		if err != nil {
			r.fail("C05", "ExportWallet with the right passphrase failed on instance %s: %v", p[1], err)
			return true, nil
		}
		r.export, r.expN, r.expInt = j, r.count(s), s.nInt
		return true, nil
	case "impk":
		if r.export == "" || len(r.insts) >= r.m.O.MaxInst {
			return false, nil
		}
		s, err := r.newInst("keystore import")
		if err != nil {
			return true, err
		}
		ws, err := s.I.W.ImportWallet(r.export, Pass)
		if err != nil {
			r.fail("C04", "ImportWallet of an exported keystore failed: %v", err)
			return true, nil
		}
		if ws.WalletID != r.id {
			r.fail("C04", "keystore import yields wallet id %s, original %s", ws.WalletID, r.id)
		}
		s.nInt = r.expInt // an exported keystore carries the internal child number
		return true, r.makeReady(s)
	case "impm":
		if len(r.insts) == 0 || len(r.insts) >= r.m.O.MaxInst {
			return false, nil
		}
		hint, _ := strconv.Atoi(p[1])
		s, err := r.newInst("mnemonic import")
		if err != nil {
			return true, err
		}
		ws, err := s.I.W.ImportWalletWithMnemonic(&keystore.WalletParams{Mnemonic: r.mnem, PrivatePassphrase: []byte(Pass), Remarks: "m",
			ExternalIndex: uint32(hint), AddressGapLimit: uint32(r.m.O.Gap)})
		if err != nil {
			r.fail("C04", "ImportWalletWithMnemonic failed: %v", err)
			return true, nil
		}
		if ws.WalletID != r.id {
			r.fail("C04", "mnemonic import yields wallet id %s, original %s", ws.WalletID, r.id)
		}
		return true, r.makeReady(s)
	case "impi":
		// mnemonic import that also derives two INTERNAL (change) addresses
		if len(r.insts) == 0 || len(r.insts) >= r.m.O.MaxInst {
			return false, nil
		}
		s, err := r.newInst("mnemonic import with internal addresses")
		if err != nil {
			return true, err
		}
		ws, err := s.I.W.ImportWalletWithMnemonic(&keystore.WalletParams{Mnemonic: r.mnem, PrivatePassphrase: []byte(Pass), Remarks: "mi",
			ExternalIndex: 1, InternalIndex: 2, AddressGapLimit: uint32(r.m.O.Gap)})
		if err != nil {
			r.fail("C04", "ImportWalletWithMnemonic (internal index 2) failed: %v", err)
			return true, nil
		}
		if ws.WalletID != r.id {
			r.fail("C04", "mnemonic import yields wallet id %s, original %s", ws.WalletID, r.id)
		}
		s.nInt = 2
		return true, r.makeReady(s)
	case "create2":
		// a second, unrelated wallet on the same instance (it is encrypted under the
		// instance's CURRENT public passphrase)
		s := at()
		if s == nil || s.second {
			return false, nil
		}
		if _, _, _, err := s.I.W.CreateWallet(NewPass, "second", 128); err != nil {
			r.fail("C04", "CreateWallet of a second wallet failed: %v", err)
			return true, nil
		}
		s.second = true
		if _, err := s.I.W.UseWallet(r.id); err != nil {
			r.fail("C04", "UseWallet after creating a second wallet: %v", err)
		}
		return true, nil
	case "restart":
		s := at()
		if s == nil {
			return false, nil
		}
		st := s.I.Store
		s.I.CloseRaw()
		i, err := inst.OpenAt(st, r.n, uint32(r.m.O.Gap), pubOf(s.pubIdx), nil)
		if err != nil {
			r.fail("C04", "wallet does not open after restart (public passphrase %d): %v", s.pubIdx, err)
			return true, nil
		}
		i.W.VerifInitTaskChan()
		s.I = i
		s.unlocked = false
		if _, err := i.W.UseWallet(r.id); err != nil {
			r.fail("C04", "UseWallet after restart: %v", err)
		}
		return true, nil
	case "chpub":
		s := at()
		if s == nil {
			return false, nil
		}
		err := mwdb.Update(s.I.W.VerifDB(), func(tx mwdb.DBTransaction) error {
			return s.I.W.VerifKeystoreManager().ChangePubPassphrase(tx, []byte(pubOf(s.pubIdx)), []byte(pubOf(s.pubIdx+1)), &keystore.DefaultScryptOptions)
		})
		if err != nil {
			r.fail("C04", "ChangePubPassphrase failed: %v", err)
			return true, nil
		}
		s.pubIdx++
		return true, nil
	}
	return false, fmt.Errorf("unknown event %s", ev)
}

func (m *Model) alphabet(r *run) []string {
	if len(r.insts) == 0 {
		var a []string
		for _, b := range m.O.Bits {
			a = append(a, fmt.Sprintf("create:%d", b))
		}
		return append(a, "createz")
	}
	var a []string
	for k := range r.insts {
		a = append(a, fmt.Sprintf("addr:%d:s", k), fmt.Sprintf("addr:%d:t", k), fmt.Sprintf("sign:%d", k), fmt.Sprintf("export:%d", k),
			fmt.Sprintf("restart:%d", k), fmt.Sprintf("chpub:%d", k), fmt.Sprintf("create2:%d", k))
	}
	mx := 0
	for _, s := range r.insts {
		if c := r.count(s); c > mx {
			mx = c
		}
	}
	a = append(a, "impk", "impm:0", "impi")
	if mx > 0 {
		a = append(a, fmt.Sprintf("impm:%d", mx))
	}
	return a
}

func (m *Model) enabled(r *run, ev string) bool {
	p := strings.Split(ev, ":")
	switch p[0] {
	case "create", "createz":
		return len(r.insts) == 0
	case "impk":
		return r.export != "" && len(r.insts) < m.O.MaxInst
	case "impm", "impi":
		return len(r.insts) > 0 && len(r.insts) < m.O.MaxInst
	}
	k, _ := strconv.Atoi(p[1])
	if k >= len(r.insts) {
		return false
	}
	s := r.insts[k]
	switch p[0] {
	case "addr":
		return r.count(s) < m.O.MaxAddr
	case "sign":
		return r.count(s) > 0
	case "create2":
		return !s.second
	}
	return true
}

// signAll signs a digest with the key of every address the instance holds and verifies the
// signature under the public key the address commits to (C04).
func (r *run) signAll(s *ist, right bool) {
	list, err := s.I.W.GetAllAddressesWithPubkey()
	if err != nil {
		r.fail("C04", "GetAllAddressesWithPubkey: %v", err)
		return
	}
	digest := sha256.Sum256([]byte("verif digest"))
	for _, ad := range list {
		if ad.PubKey == nil {
			continue
		}
		// the address must commit to that public key: sha256(OP_1 <pub> OP_1 OP_CHECKMULTISIG)
		redeem := append([]byte{0x51, 33}, ad.PubKey.SerializeCompressed()...)
		redeem = append(redeem, 0x51, 0xae)
		h := sha256.Sum256(redeem)
		std := ad.Address
		if ad.AddressClass == massutil.AddressClassWitnessStaking {
			std = ad.StdAddress
		}
		want, _ := massutil.NewAddressWitnessScriptHash(h[:], nil2())
		if want.EncodeAddress() != std {
			r.fail("C04", "address %s does not commit to the public key the wallet reports for it", std)
			continue
		}
		sig, err := s.I.W.SignHash(ad.PubKey, digest[:], []byte(Pass))
		if err != nil {
			r.fail("C04", "SignHash with the right passphrase failed for %s: %v", std, err)
			r.errs = append(r.errs, err.Error())
			continue
		}
		if !sig.Verify(digest[:], ad.PubKey) {
			r.fail("C04", "signature for %s does not verify under the public key committed in the address", std)
		}
	}
}

// oddPassphraseWallet imports a second wallet whose private passphrase contains blanks and
// punctuation and requires every secret-requiring operation to accept exactly that passphrase.
func (r *run) oddPassphraseWallet(k int, s *ist) {
	const (
		mnOdd   = "legal winner thank year wave sausage worth useful legal winner thank yellow"
		passOdd = "pass word-9!? ~"
	)
	W := s.I.W
	ws, err := W.ImportWalletWithMnemonic(&keystore.WalletParams{Mnemonic: mnOdd, PrivatePassphrase: []byte(passOdd), Remarks: "odd", AddressGapLimit: 2})
	if err != nil {
		r.errs = append(r.errs, err.Error())
		return // an import that refuses such a passphrase creates no obligation
	}
	defer W.UseWallet(r.id)
	if mn, _, err := W.GetMnemonic(ws.WalletID, passOdd); err != nil || mn != mnOdd {
		r.fail("C05", "instance %d: wallet imported with passphrase %q: GetMnemonic with that passphrase = %q, %v", k, passOdd, mn, err)
	}
	if _, err := W.ExportWallet(ws.WalletID, passOdd); err != nil {
		r.fail("C05", "instance %d: wallet imported with passphrase %q: ExportWallet with that passphrase failed: %v", k, passOdd, err)
	}
	if _, _, err := W.GetMnemonic(ws.WalletID, passOdd+"x"); err == nil {
		r.fail("C05", "instance %d: wallet imported with passphrase %q: GetMnemonic accepted %q", k, passOdd, passOdd+"x")
	}
	if _, err := W.UseWallet(ws.WalletID); err != nil {
		r.errs = append(r.errs, err.Error())
		return // still importing: selecting it may be refused
	}
	if list, err := W.GetAllAddressesWithPubkey(); err == nil {
		digest := sha256.Sum256([]byte("verif odd"))
		for _, ad := range list {
			if ad.PubKey == nil {
				continue
			}
			sig, err := W.SignHash(ad.PubKey, digest[:], []byte(passOdd))
			if err != nil {
				r.fail("C05", "instance %d: wallet imported with passphrase %q: SignHash with that passphrase failed: %v", k, passOdd, err)
			} else if !sig.Verify(digest[:], ad.PubKey) {
				r.fail("C04", "instance %d: wallet imported with passphrase %q: signature does not verify", k, passOdd)
			}
			break
		}
	}
}

// pubPassScenario: "before and after restarts, public-passphrase changes" and "a refused
// attempt neither unlocks nor alters anything" for the PUBLIC passphrase, on a separate
// instance: a change on a still empty manager, then repeatedly a change that must be refused
// (the new public passphrase equals a wallet's private passphrase) followed by the creation of
// another wallet and a restart - the database must keep opening with the passphrase of the
// last ACCEPTED change, and every wallet must be there.
func (r *run) pubPassScenario() {
	st := inst.NewMemStore()
	open := func(pub string) (*inst.Inst, error) {
		i, err := inst.OpenAt(st, r.n, uint32(r.m.O.Gap), pub, nil)
		if err == nil {
			i.W.VerifInitTaskChan()
		}
		return i, err
	}
	i, err := open(pubPass0)
	if err != nil {
		r.errs = append(r.errs, err.Error())
		return
	}
	defer func() { i.CloseRaw() }()
	change := func(from, to string) error {
		return mwdb.Update(i.W.VerifDB(), func(tx mwdb.DBTransaction) error {
			return i.W.VerifKeystoreManager().ChangePubPassphrase(tx, []byte(from), []byte(to), &keystore.DefaultScryptOptions)
		})
	}
	cur := pubPass0
	if err := change(cur, pubPass1); err == nil {
		cur = pubPass1 // accepted on the empty manager
	}
	wallets := 0
	for round := 0; round < 4; round++ {
		priv := fmt.Sprintf("privpassR%d", round)
		if _, _, _, err := i.W.CreateWallet(priv, "r", 128); err != nil {
			r.fail("C05", "public-passphrase scenario: CreateWallet #%d failed: %v", round, err)
			return
		}
		wallets++
		// restart with the passphrase of the last accepted change
		i.CloseRaw()
		j, err := open(cur)
		if err != nil {
			r.fail("C05", "public-passphrase scenario: after %d wallet(s) the database no longer opens with the public passphrase of the last accepted change: %v", wallets, err)
			// keep i valid for the deferred close
			if k, e2 := open(pubPass0); e2 == nil {
				i = k
			} else if k, e2 := open(priv); e2 == nil {
				i = k
			}
			return
		}
		i = j
		if ws, err := i.W.Wallets(); err != nil || len(ws) != wallets {
			r.fail("C05", "public-passphrase scenario: after restart %d wallet(s) are listed (err %v), %d were created", len(ws), err, wallets)
			return
		}
		// a change that must be refused: the new public passphrase equals a private one
		if err := change(cur, priv); err == nil {
			cur = priv // (accepted: then it is simply the current one)
		}
	}
}

// ---- secrets ----

func (r *run) collectSecrets() {
	sec := map[string][]byte{}
	add := func(name string, b []byte) {
		if len(b) < 8 {
			return
		}
		sec[name] = b
		sec[name+" (hex)"] = []byte(hex.EncodeToString(b))
		sec[name+" (HEX)"] = []byte(strings.ToUpper(hex.EncodeToString(b)))
	}
	words := strings.Fields(r.mnem)
	sec["mnemonic"] = []byte(r.mnem)
	for i := 0; i+4 <= len(words); i++ {
		sec[fmt.Sprintf("mnemonic words %d-%d", i, i+3)] = []byte(strings.Join(words[i:i+4], " "))
	}
	ent, _ := keystoreEntropy(r.mnem)
	add("entropy", ent)
	for name, b := range r.ref.SecretMaterial(8) {
		if strings.HasPrefix(name, "xprv") {
			sec[name] = b
		} else {
			add(name, b)
		}
	}
	sec["private passphrase"] = []byte(Pass)
	sec["private passphrase (hex)"] = []byte(hex.EncodeToString([]byte(Pass)))
	r.secrets = sec
}

func (r *run) scan(where string, hay []byte) {
	for name, s := range r.secrets {
		if bytes.Contains(hay, s) {
			r.fail("C05", "%s contains the %s in clear", where, name)
		}
	}
}

func printableKey(b []byte) string {
	if len(b) > 40 {
		b = b[:40]
	}
	return string(bytes.Map(func(r rune) rune {
		if r < 32 || r > 126 {
			return '.'
		}
		return r
	}, b))
}

func rawDump(i *inst.Inst) ([]byte, string) {
	var buf bytes.Buffer
	h := sha256.New()
	ldb.VerifRawIterate(i.Raw, func(k, v []byte) {
		buf.Write(k)
		buf.WriteByte(0)
		buf.Write(v)
		buf.WriteByte(0)
		h.Write(k)
		h.Write(v)
	})
	return buf.Bytes(), hex.EncodeToString(h.Sum(nil)[:8])
}

// wrongFamily: empty, every 1-edit neighbour over a few symbols, the public passphrases,
// a different legal passphrase.
func wrongFamily(right string) []string {
	out := []string{"", pubPass0, pubPass1, NewPass, right + right, strings.ToUpper(right), " " + right, right + " "}
	syms := []byte("aA1@")
	for i := 0; i <= len(right); i++ {
		if i < len(right) {
			out = append(out, right[:i]+right[i+1:]) // deletion
			for _, c := range syms {
				if right[i] != c {
					out = append(out, right[:i]+string(c)+right[i+1:]) // substitution
				}
			}
		}
		out = append(out, right[:i]+"x"+right[i:]) // insertion
	}
	return out
}

// checkWrongPass: every secret-requiring operation is refused for every wrong passphrase,
// changes nothing and does not unlock (C05).
func (r *run) checkWrongPass(k int, s *ist) {
	W := s.I.W
	list, _ := W.GetAllAddressesWithPubkey()
	var pub *btcec.PublicKey
	for _, ad := range list {
		if ad.PubKey != nil {
			pub = ad.PubKey
			break
		}
	}
	digest := sha256.Sum256([]byte("verif digest"))
	_, before := rawDump(s.I)
	for _, wp := range wrongFamily(Pass) {
		if pub != nil {
			if sig, err := W.SignHash(pub, digest[:], []byte(wp)); err == nil {
				r.fail("C05", "instance %d (%s, unlocked=%v): SignHash accepted the wrong passphrase %q (signature %v)", k, s.how, s.unlocked, wp, sig != nil)
			} else {
				r.errs = append(r.errs, err.Error())
			}
		}
		if j, err := W.ExportWallet(r.id, wp); err == nil {
			r.fail("C05", "instance %d: ExportWallet accepted the wrong passphrase %q (%d bytes)", k, wp, len(j))
		} else {
			r.errs = append(r.errs, err.Error())
		}
		if mn, _, err := W.GetMnemonic(r.id, wp); err == nil {
			r.fail("C05", "instance %d: GetMnemonic accepted the wrong passphrase %q (%d chars)", k, wp, len(mn))
		} else {
			r.errs = append(r.errs, err.Error())
		}
		if err := W.RemoveWallet(r.id, wp); err == nil {
			r.fail("C05", "instance %d: RemoveWallet accepted the wrong passphrase %q", k, wp)
		} else {
			r.errs = append(r.errs, err.Error())
		}
		if err := W.ChangePrivPassphrase(wp, NewPass); err == nil {
			r.fail("C05", "instance %d: ChangePrivPassphrase accepted the wrong old passphrase %q", k, wp)
		} else {
			r.errs = append(r.errs, err.Error())
		}
	}
	if _, after := rawDump(s.I); after != before {
		r.fail("C05", "instance %d: refused attempts changed the database", k)
	}
}

func (m *Model) Run(hist []string) *proto.Result {
	res := &proto.Result{Info: map[string]int{}}
	m.seq++
	dir := filepath.Join(env.Scratch(), fmt.Sprintf("c04-%d", m.seq))
	defer os.RemoveAll(dir)
	env.SetConsensus(env.Small)
	env.RestoreRand()
	n, err := simnode.New(filepath.Join(dir, "node"))
	if err != nil {
		res.Err = err.Error()
		return res
	}
	(&simnode.Server{N: n}).SyncManager()
	env.SeedRand("c04")
	r := &run{m: m, n: n}
	defer func() {
		for _, s := range r.insts {
			s.I.CloseRaw()
		}
		n.Close()
	}()
	for i, ev := range hist {
		ok, err := r.apply(ev)
		if err != nil {
			res.Err = fmt.Sprintf("event %d %s: %v", i, ev, err)
			return res
		}
		if !ok {
			res.Err = fmt.Sprintf("event %d %s not enabled on replay", i, ev)
			return res
		}
	}
	// abstract state key: instance shapes (ciphertext randomness does not influence futures)
	type shape struct {
		N, Pub   int
		Unlocked bool
		Classes  []bool
		How      string
	}
	var shapes []shape
	for _, s := range r.insts {
		shapes = append(shapes, shape{r.count(s), s.pubIdx % 3, s.unlocked, s.classes, fmt.Sprint(s.how, s.nInt, s.second)})
	}
	kb, _ := json.Marshal(map[string]interface{}{"bits": r.bits, "shapes": shapes, "exp": r.expN, "expint": r.expInt, "hasexp": r.export != ""})
	kh := sha256.Sum256(kb)
	res.Key = hex.EncodeToString(kh[:16])
	res.Outcome = res.Key[:16]
	res.Quiescent = true
	for _, ev := range m.alphabet(r) {
		if m.enabled(r, ev) {
			res.Succ = append(res.Succ, ev)
		}
	}
	if len(r.insts) == 0 {
		return res
	}
	// ---- oracle ----
	// C04: same address at every index in every instance, equal to the independent derivation
	var all [][]string
	for k, s := range r.insts {
		addrs, err := s.I.W.VerifKeystoreManager().GetAddrs(r.id)
		if err != nil {
			r.fail("C04", "instance %d does not hold the wallet: %v", k, err)
			continue
		}
		sort.Strings(addrs)
		ext := addrs
		if s.nInt > 0 {
			// the cross-instance comparison below is about the external chain
			internal := map[string]bool{}
			for i := 0; i < s.nInt; i++ {
				if ra, err := r.ref.AddrBranch(1, uint32(i)); err == nil {
					internal[ra.Std] = true
				}
			}
			ext = nil
			for _, a := range addrs {
				if !internal[a] {
					ext = append(ext, a)
				}
			}
		}
		all = append(all, ext)
		have := map[string]bool{}
		for _, a := range addrs {
			have[a] = true
		}
		for i := 0; i < s.nInt; i++ {
			ra, err := r.ref.AddrBranch(1, uint32(i))
			if err != nil {
				res.Err = err.Error()
				return res
			}
			if !r.ref.Affected && !have[ra.Std] {
				r.fail("C04", "instance %d (%s) does not hold the key chain's INTERNAL address at index %d (%s)", k, s.how, i, ra.Std)
			}
		}
		for i := 0; i < len(addrs)-s.nInt; i++ {
			ra, err := r.ref.Addr(uint32(i))
			if err != nil {
				res.Err = err.Error()
				return res
			}
			if !r.ref.Affected && !have[ra.Std] {
				r.fail("C04", "instance %d (%s) holds %d addresses but not the key chain's address at index %d (%s)", k, s.how, len(addrs), i, ra.Std)
			}
		}
		for i, a := range s.issued {
			if a == "" {
				continue
			}
			ra, _ := r.ref.Addr(uint32(i))
			want := ra.Std
			if s.classes[i] {
				want = ra.Staking
			}
			if !r.ref.Affected && a != want {
				r.fail("C04", "instance %d (%s): NewAddress #%d returned %s, independent derivation of index %d gives %s", k, s.how, i, a, i, want)
			}
		}
	}
	if !r.ref.Affected && r.ref.WalletID != r.id {
		r.fail("C04", "wallet id %s, independent derivation gives %s", r.id, r.ref.WalletID)
	}
	// cross-instance equality on the common prefix (also meaningful for affected seeds)
	for k := 1; k < len(all); k++ {
		a, b := all[0], all[k]
		sa, sb := map[string]bool{}, map[string]bool{}
		for _, x := range a {
			sa[x] = true
		}
		for _, x := range b {
			sb[x] = true
		}
		small, big, sn := sa, sb, 0
		if len(b) < len(a) {
			small, big, sn = sb, sa, k
		}
		for x := range small {
			if !big[x] {
				r.fail("C04", "instance %d holds address %s which the larger instance does not derive", sn, x)
			}
		}
	}
	// C05: wrong passphrases, on the state as the history left it
	for k, s := range r.insts {
		r.checkWrongPass(k, s)
	}
	// C04: signatures (unlocks)
	for _, s := range r.insts {
		r.signAll(s, true)
	}
	// a wrong passphrase after a successful unlock is still refused
	for k, s := range r.insts {
		s.unlocked = true
		r.checkWrongPass(k, s)
	}
	// C04: a second unlock period in the same process - the keys are cleared (what SignRawTx
	// does after every call), then every address signs again: the key derived the second time
	// must still be the one the address commits to
	for _, s := range r.insts {
		s.I.W.VerifKeystoreManager().ClearPrivKey()
		r.signAll(s, true)
	}
	// right passphrase still works for every secret-requiring read
	for k, s := range r.insts {
		if mn, _, err := s.I.W.GetMnemonic(r.id, Pass); err != nil || mn != r.mnem {
			r.fail("C05", "instance %d: GetMnemonic with the right passphrase = %q, %v", k, mn, err)
			if err == nil {
				r.fail("C04", "instance %d (%s) reports another mnemonic than the one the wallet was created from", k, s.how)
			}
		}
		if j, err := s.I.W.ExportWallet(r.id, Pass); err != nil {
			r.fail("C05", "instance %d: ExportWallet with the right passphrase failed: %v", k, err)
		} else {
			r.scan(fmt.Sprintf("keystore exported by instance %d", k), []byte(j))
		}
	}
	// C05: a wallet imported under a passphrase outside the character set CreateWallet asks
	// for (imports only bound the length): the right passphrase must work for it as well
	if len(hist) <= 2 {
		r.oddPassphraseWallet(len(r.insts)-1, r.insts[len(r.insts)-1])
	}
	// C05: public-passphrase changes on a manager of its own (directed scenario, once per run)
	if len(hist) == 1 {
		r.pubPassScenario()
	}
	// C05: scans
	for k, s := range r.insts {
		d, _ := rawDump(s.I)
		r.scan(fmt.Sprintf("database of instance %d (%s)", k, s.how), d)
		// a secret sealed under a trivial key is as good as in clear: every stored value that
		// has the shape nonce||secretbox is opened with the all-zero key
		var zero [32]byte
		ldb.VerifRawIterate(s.I.Raw, func(key, v []byte) {
			// candidates: the whole value, and every length-prefixed field inside it (records such
			// as the account row are sequences of [u32 little-endian length][bytes])
			cands := [][]byte{v}
			for off := 0; off+4 <= len(v) && off < 16; off++ {
				for p := off; p+4 <= len(v); {
					n := int(uint32(v[p]) | uint32(v[p+1])<<8 | uint32(v[p+2])<<16 | uint32(v[p+3])<<24)
					if n <= 0 || p+4+n > len(v) {
						break
					}
					cands = append(cands, v[p+4:p+4+n])
					p += 4 + n
				}
			}
			seen := map[string]bool{}
			for _, c := range cands {
				if len(c) < 24+secretbox.Overhead || seen[string(c)] {
					continue
				}
				seen[string(c)] = true
				var nonce [24]byte
				copy(nonce[:], c[:24])
				if plain, ok := secretbox.Open(nil, c[24:], &nonce, &zero); ok {
					r.fail("C05", "database of instance %d (%s): record %q holds a field that opens with the all-zero key (%d bytes of plaintext)", k, s.how, printableKey(key), len(plain))
					r.scan(fmt.Sprintf("plaintext under the all-zero key in the database of instance %d", k), plain)
				}
			}
		})
	}
	if r.export != "" {
		r.scan("exported keystore", []byte(r.export))
	}
	r.scan("an error message", []byte(strings.Join(r.errs, "\n")))
	res.Viol = r.viol
	if m.O.Prop != "" {
		res.Viol = nil
		for _, v := range r.viol {
			if strings.HasPrefix(v, m.O.Prop+":") {
				res.Viol = append(res.Viol, v)
			}
		}
	}
	res.Info["instances"] = len(r.insts)
	return res
}
