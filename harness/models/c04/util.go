package c04

import (
	"massnet.org/mass-wallet/config"
	"massnet.org/mass-wallet/masswallet/keystore"
)

func nil2() *config.Params { return config.ChainParams }

func keystoreEntropy(mn string) ([]byte, error) { return keystore.EntropyFromMnemonic(mn) }
