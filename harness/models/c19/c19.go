// Package c19 enumerates, for a list of reachable wallet states, every API method with the
// full product of small per-parameter domains (under recover), and delivers malformed
// transactions to the follower.
package c19

import (
	"context"
	"encoding/hex"
	"encoding/json"
	"fmt"
	"os"
	"path/filepath"
	"reflect"
	"runtime/debug"
	"sort"
	"strings"

	"github.com/massnetorg/mass-core/massutil"
	"github.com/massnetorg/mass-core/wire"
	"massnet.org/mass-wallet/api"
	"massnet.org/mass-wallet/config"
	"massnet.org/mass-wallet/masswallet"
	"vh/enum"
	"vh/env"
	"vh/proto"
	"vh/world"
)

// States are the wallet states (by the history that reaches them).
var States = map[string][]string{
	"selected-empty":  {},
	"not-selected":    {"x.ca", "d", "z"},
	"with-coins":      {"x.ca", "d", "x.pa", "d", "x.e", "d", "x.e", "d", "x.e", "d"},
	"pending-spend":   {"x.pa", "d", "x.pa", "d", "y.sp"},
	"spent-coin":      {"x.pa", "d", "x.sa", "d"},
	"importing":       {"x.pc0", "d", "i.m0"},
	"removing":        {"x.ab", "d", "k.rm"},
	"after-reorg":     {"x.pa", "d", "r.1.E", "d"},
	"staking-binding": {"x.bo", "d", "x.st", "d", "x.bn", "d", "x.e", "d"},
	// unconfirmed staking and binding deposits to the wallet (history views list pending entries)
	"pending-deposits": {"x.pa", "d", "y.st", "y.bd"},
	// between two rescan batches of an import (one height per batch): the restored wallet is
	// still importing but its first credit is already recorded
	"importing-credit-recorded": {"b.1", "x.pc0", "d", "x.e", "d", "i.m0", "i.s", "i.s", "i.s", "i.s"},
}

// blockProbes are the block contents delivered to the follower in every state (one fresh
// replay each): whatever the wallet state, a block the node can deliver must be processed.
var blockProbes = []string{"e", "ca", "pa", "sa", "sj", "ch", "ab", "a2b", "st", "sw", "bo", "bn", "bw", "nd", "pc0", "pc1", "sc", "c2a", "cp", "cc"}

// DeepStates are added in the thorough tier.
var DeepStates = map[string][]string{
	"lagging":            {"x.ca", "d", "x.pa", "x.e"},
	"lagging-reorg":      {"x.pa", "d", "x.sa", "d", "r.2.E"},
	"pending-incoming":   {"x.ca", "d", "y.in"},
	"removed":            {"x.ab", "d", "k.rm", "k.run"},
	"imported":           {"x.pc0", "d", "i.m0", "i.s"},
	"restart-with-coins": {"x.ca", "d", "x.pa", "d", "x.e", "d", "z"},
	"more-addresses":     {"n.a", "n.a", "x.pa", "d"},
	"conflicted-pending": {"x.pa", "d", "x.pa", "d", "y.sp", "x.cc", "d"},
	"binding-withdrawn":  {"x.e", "d", "x.e", "d", "x.bn", "d", "x.e", "d", "x.e", "d", "x.e", "d", "x.bw", "d"},
	"staking-withdrawn":  {"x.st", "d", "x.e", "d", "x.e", "d", "x.sw", "d"},
	// the SELECTED wallet is removed (special handling below: B is selected before its removal)
	"selected-removed": {"x.ab", "d"},
	// chain events around withdrawals: the block holding the withdrawal of a staking / binding
	// deposit is reorganised away (and the follower must survive it)
	"staking-withdrawal-reorged": {"x.st", "d", "x.e", "d", "x.e", "d", "x.sw", "d", "r.1.E", "d"},
	"binding-withdrawal-reorged": {"x.e", "d", "x.e", "d", "x.bn", "d", "x.e", "d", "x.e", "d", "x.e", "d", "x.bw", "d", "r.1.E", "d"},
	// + a relayed payment to the wallet whose binding target has an unknown type
	"odd-binding-target": {"x.e", "d", "x.e", "d", "x.pa", "d"},
}

type Opts struct {
	Cap  int  `json:"cap"`  // calls per method and state
	Deep bool `json:"deep"` // include DeepStates
}

func (m *Model) states() map[string][]string {
	if !m.O.Deep {
		return States
	}
	all := map[string][]string{}
	for k, v := range States {
		all[k] = v
	}
	for k, v := range DeepStates {
		all[k] = v
	}
	return all
}

type ctxT struct {
	stranger string
	w        *world.World
	tip      uint64
	txKnown  string
	txSpent  string
	txPend   string
	rawTx    string
	rawPend  string // a transaction spending output 0 of a pending transaction (or of an unknown one)
	export   string
}

// domain returns the value domain of one request field (most interesting first).
func (c *ctxT) domain(name string, t reflect.Type) []reflect.Value {
	n := strings.ToLower(name)
	A := c.w.Wallets["A"]
	B := c.w.Wallets["B"]
	vs := func(xs ...interface{}) []reflect.Value {
		var r []reflect.Value
		for _, x := range xs {
			r = append(r, reflect.ValueOf(x).Convert(t))
		}
		return r
	}
	long := strings.Repeat("x", 300)
	a0, a1, st0 := A.Addrs[0].Std, A.Addrs[1].Std, A.Addrs[0].Staking
	b0 := ""
	idB := "ac10qqqqqqqqqqqqqqqqqqqqqqqqqqqqqqqqqqqqq"
	if B != nil {
		b0, idB = B.Addrs[0].Std, B.ID
	}
	switch t.Kind() {
	case reflect.String:
		switch {
		case strings.Contains(n, "walletid"):
			return vs(A.ID, idB, "ac10qqqqqqqqqqqqqqqqqqqqqqqqqqqqqqqqqq0000", "", "x", long)
		case strings.Contains(n, "passphrase"):
			return vs(world.PassA, world.PassB, "", "short", long, "wrongpass1")
		case strings.Contains(n, "txid") || n == "hash":
			return vs(c.txKnown, c.txSpent, c.txPend, strings.Repeat("ab", 32), "zz", "", "abcd")
		case strings.Contains(n, "staking"):
			return vs(st0, a0, "", "ms1qpinvalid", long)
		case strings.Contains(n, "address") || strings.Contains(n, "holder"):
			return vs(a0, a1, b0, st0, c.stranger, "ms1qqinvalid", "", long)
		case strings.Contains(n, "rawtx") || n == "hex":
			return vs(c.rawTx, c.rawPend, c.rawTx[:len(c.rawTx)/2], "", "abc", "zz", strings.Repeat("00", 40))
		case strings.Contains(n, "amount") || strings.Contains(n, "fee") || strings.Contains(n, "value"):
			if strings.Contains(n, "fee") {
				return vs("0.001", "0", "1", "0.00000001", "206438400", "-1", "abc", "", "1.123456789", "1.100000000", "2.0000000000", "1.", ".5", "1e3", " 1", "+1", "0x10", "1,5", "１")
			}
			return vs("0.5", "0", "0.00000001", "206438400", "1000000000", "-1", "abc", "", "1.123456789", "1.100000000", "2.0000000000", "1.", ".5", "1e3", " 1", "+1", "0x10", "1,5", "１")
		case strings.Contains(n, "flags"):
			return vs("ALL", "NONE", "SINGLE", "ALL|ANYONECANPAY", "NONE|ANYONECANPAY", "SINGLE|ANYONECANPAY", "BOGUS", "")
		case strings.Contains(n, "mnemonic"):
			// freshMnemonic is replaced at call time by a valid sentence never used before, so that
			// EVERY combination of the other parameters meets a wallet that can still be imported
			return vs(freshMnemonic, world.MnemonicC, A.Mnemonic, "abandon abandon", "", long)
		case strings.Contains(n, "keystore"):
			return vs(c.export, "{}", "", "notjson", c.export[:len(c.export)/2])
		case strings.Contains(n, "payload"):
			return vs("", strings.Repeat("ab", 32), "zz", long)
		case n == "type":
			return vs("", "all", "withdrawn", "x")
		default:
			return vs("", "x", long)
		}
	case reflect.Int32, reflect.Int64:
		switch {
		case strings.Contains(n, "version") || strings.Contains(n, "bitsize"):
			return vs(0, 1, 2, 128, 129, 256, -1)
		default:
			return vs(1, 0, 2, -1, 1<<31-1)
		}
	case reflect.Uint32, reflect.Uint64:
		switch {
		case strings.Contains(n, "vout") || strings.Contains(n, "index"):
			// 21, 25: just beyond the default address gap limit (20) of a wallet without history
			// (1<<20)+1, 1<<32-1: beyond what an import accepts as an index hint - must be refused at once
			return vs(0, 1, 5, 21, 25, (1<<20)+1, 1<<32-1)
		case strings.Contains(n, "height"):
			return vs(0, 1, c.tip, c.tip+1, uint64(1<<32-1))
		case strings.Contains(n, "frozen"):
			return vs(0, 2, 3, 1<<32-1)
		default:
			return vs(0, 1, 1<<32-1)
		}
	case reflect.Bool:
		return vs(false, true)
	case reflect.Slice:
		et := t.Elem()
		mk := func(items ...reflect.Value) reflect.Value {
			s := reflect.MakeSlice(t, 0, len(items))
			return reflect.Append(s, items...)
		}
		if et.Kind() == reflect.String {
			d := c.domain(name, et)
			out := []reflect.Value{reflect.Zero(t), mk(d[0]), mk(d[0], d[1]), mk(d[len(d)-2]), mk(d[0], d[0])}
			return out
		}
		if et.Kind() == reflect.Ptr && et.Elem().Kind() == reflect.Struct {
			items := c.structs(et.Elem(), 6)
			out := []reflect.Value{}
			if len(items) > 0 {
				out = append(out, mk(items[0]))
			}
			out = append(out, reflect.Zero(t), mk(reflect.Zero(et))) // empty list, list with a nil element
			for i, it := range items {
				if i > 0 {
					out = append(out, mk(it))
				}
			}
			if len(items) > 1 {
				out = append(out, mk(items[0], items[0]), mk(items[0], items[1]))
			}
			return out
		}
	case reflect.Map:
		if t.Key().Kind() == reflect.String && t.Elem().Kind() == reflect.String {
			mk := func(kv ...string) reflect.Value {
				m := reflect.MakeMap(t)
				for i := 0; i+1 < len(kv); i += 2 {
					m.SetMapIndex(reflect.ValueOf(kv[i]), reflect.ValueOf(kv[i+1]))
				}
				return m
			}
			s := c.stranger
			return []reflect.Value{mk(s, "0.5"), reflect.Zero(t), mk(s, "1", a1, "0.5"), mk("garbage", "1"), mk(s, "abc"), mk(s, "0"), mk(s, "100000000"), mk(st0, "1"), mk(s, "1.100000000"), mk(s, "0.0000000000"), mk(s, "-0.5")}
		}
	case reflect.Ptr:
		if t.Elem().Kind() == reflect.Struct {
			return append(c.structs(t.Elem(), 4), reflect.Zero(t))
		}
	}
	return []reflect.Value{reflect.Zero(t)}
}

// structs enumerates up to max instances of a message type (product of field domains).
func (c *ctxT) structs(t reflect.Type, max int) []reflect.Value {
	var out []reflect.Value
	c.product(t, max, func(v reflect.Value) { out = append(out, v) })
	return out
}

// product enumerates the full product of the field domains of message type t, after
// shrinking the largest domains until the product is <= cap.
func (c *ctxT) product(t reflect.Type, cap int, f func(reflect.Value)) (full int, used int) {
	type fd struct {
		idx int
		dom []reflect.Value
	}
	var fs []fd
	for i := 0; i < t.NumField(); i++ {
		sf := t.Field(i)
		if strings.HasPrefix(sf.Name, "XXX_") || sf.PkgPath != "" {
			continue
		}
		fs = append(fs, fd{i, c.domain(sf.Name, sf.Type)})
	}
	size := func() int {
		n := 1
		for _, x := range fs {
			n *= len(x.dom)
		}
		return n
	}
	full = size()
	for size() > cap {
		big := 0
		for i := range fs {
			if len(fs[i].dom) > len(fs[big].dom) {
				big = i
			}
		}
		if len(fs[big].dom) <= 1 {
			break
		}
		fs[big].dom = fs[big].dom[:len(fs[big].dom)-1]
	}
	used = size()
	idx := make([]int, len(fs))
	for {
		v := reflect.New(t)
		for i, x := range fs {
			v.Elem().Field(x.idx).Set(x.dom[idx[i]])
		}
		f(v)
		k := len(fs) - 1
		for k >= 0 {
			idx[k]++
			if idx[k] < len(fs[k].dom) {
				break
			}
			idx[k] = 0
			k--
		}
		if k < 0 {
			break
		}
	}
	return
}

// skip lists API methods that are not exercised, with the reason.
var skip = map[string]string{
	"Start": "server lifecycle", "Stop": "server lifecycle", "RunGateway": "server lifecycle",
	"QuitClient":                      "ends the process by design",
	"GetNetworkBinding":               "needs the node's binding-state database (not part of the wallet; nil in the closed environment)",
	"CheckPoolPkCoinbase":             "needs the node's binding-state database",
	"CheckTargetBinding":              "needs the node's binding-state database",
	"CreatePoolPkCoinbaseTransaction": "needs the node's binding-state database",
	"GetBlockStakingReward":           "node-side block service over consensus state",
	"SendRawTransaction":              "hands the transaction to the node's mempool and p2p layer",
	"GetClientStatus":                 "reports p2p peer state of the node",
}

type Model struct {
	O   Opts
	seq int
}

func New(o Opts) *Model {
	if o.Cap == 0 {
		o.Cap = 300
	}
	return &Model{O: o}
}

// Run: hist = [stateName, methodName].
func (m *Model) Run(hist []string) *proto.Result {
	res := &proto.Result{Info: map[string]int{}}
	masswallet.VerifImportBatch = 1000 // a state may change it (event b.<n>); every replay starts from the default
	if len(hist) == 0 {                // root: list (state, method) pairs as successors
		res.Key = "root"
		var names []string
		for s := range m.states() {
			names = append(names, s)
		}
		sort.Strings(names)
		res.Succ = names
		res.Quiescent = true
		res.Outcome = "root"
		return res
	}
	m.seq++
	dir := filepath.Join(env.Scratch(), fmt.Sprintf("c19-%d", m.seq))
	defer os.RemoveAll(dir)
	w, err := world.New(dir, world.Options{})
	if err != nil {
		res.Err = "world: " + err.Error()
		return res
	}
	defer func() { w.Close() }()
	w.I.W.VerifInitTaskChan()
	for i, ev := range m.states()[hist[0]] {
		ok, err := w.Apply(ev)
		if err != nil || !ok {
			res.Err = fmt.Sprintf("state %s event %d %s: enabled=%v err=%v", hist[0], i, ev, ok, err)
			return res
		}
	}
	if hist[0] == "selected-removed" {
		B := w.Wallets["B"]
		if _, err := w.I.W.UseWallet(B.ID); err != nil {
			res.Err = "UseWallet(B): " + err.Error()
			return res
		}
		w.KeepSelection = true
		for _, ev := range []string{"k.rm", "k.run"} {
			if ok, err := w.Apply(ev); err != nil || !ok {
				res.Err = fmt.Sprintf("state selected-removed: %s enabled=%v err=%v", ev, ok, err)
				return res
			}
		}
	}
	if strings.HasSuffix(hist[0], "-reorged") {
		for len(w.N.Queue) > 0 { // every block of the new branch
			if err := w.Deliver(); err != nil {
				res.Err = err.Error()
				return res
			}
		}
	}
	for _, p := range w.Panics {
		res.Viol = append(res.Viol, "while the chain events of state "+hist[0]+" were delivered: "+p)
	}
	if hist[0] == "odd-binding-target" {
		if err := w.OddBindingEvents(); err != nil {
			res.Err = "odd binding events: " + err.Error()
			return res
		}
	}
	if hist[0] != "not-selected" && hist[0] != "selected-removed" {
		w.I.W.UseWallet(w.Wallets["A"].ID)
	}
	srv, err := api.NewAPIServer(w.I.Srv, w.I.W, func() {}, w.I.Cfg)
	if err != nil {
		res.Err = "NewAPIServer: " + err.Error()
		return res
	}
	sa, _ := massutil.NewAddressWitnessScriptHash(w.SHash, config.ChainParams)
	c := &ctxT{w: w, stranger: sa.EncodeAddress(), tip: w.N.Height(), txKnown: strings.Repeat("cd", 32), txSpent: strings.Repeat("ce", 32), txPend: strings.Repeat("cf", 32)}
	l := w.Ledger()
	knownIdx := uint32(0)
	for _, x := range l.ByOrder {
		if x.Owner != nil && x.Owner.Wallet == "A" {
			if x.SpentAt == 0 {
				if x.Class == world.ClassStd || c.txKnown == strings.Repeat("cd", 32) {
					c.txKnown = x.OP.Hash.String()
					knownIdx = x.OP.Index
				}
			} else {
				c.txSpent = x.OP.Hash.String()
			}
		}
	}
	for h := range w.Pend.Txs {
		c.txPend = h.String()
	}
	// a raw transaction spending a wallet coin if there is one, else a dummy
	raw := wire.NewMsgTx()
	h0, _ := wire.NewHashFromStr(c.txKnown)
	raw.AddTxIn(wire.NewTxIn(wire.NewOutPoint(h0, knownIdx), nil))
	raw.AddTxOut(&wire.TxOut{Value: 1000, PkScript: w.SPk})
	rb, _ := raw.Bytes(wire.Packet)
	c.rawTx = hex.EncodeToString(rb)
	rp := wire.NewMsgTx()
	hp, _ := wire.NewHashFromStr(c.txPend)
	rp.AddTxIn(wire.NewTxIn(wire.NewOutPoint(hp, 0), nil))
	rp.AddTxOut(&wire.TxOut{Value: 1000, PkScript: w.SPk})
	rpb, _ := rp.Bytes(wire.Packet)
	c.rawPend = hex.EncodeToString(rpb)
	c.export = "{}"
	if j, err := w.I.W.ExportWallet(w.Wallets["A"].ID, world.PassA); err == nil {
		c.export = j
	}
	sv := reflect.ValueOf(srv)
	st := sv.Type()
	if len(hist) == 1 { // state node: successors are the methods
		res.Key = "state:" + hist[0]
		res.Outcome = res.Key
		res.Quiescent = true
		for i := 0; i < st.NumMethod(); i++ {
			mt := st.Method(i)
			if _, sk := skip[mt.Name]; sk || mt.Type.NumIn() != 3 {
				continue
			}
			res.Succ = append(res.Succ, mt.Name)
		}
		res.Succ = append(res.Succ, "#follower-malformed")
		for _, t := range blockProbes {
			res.Succ = append(res.Succ, "#block:"+t)
		}
		return res
	}
	if strings.HasPrefix(hist[1], "#block:") {
		// chain-side probe: one block of the given content (if the simulator can build it in
		// this state), then one more empty tip
		t := hist[1][len("#block:"):]
		res.Key = hist[0] + "/" + hist[1]
		res.Outcome = res.Key + ":not-enabled"
		res.Quiescent = true
		if ok, err := w.Apply("x." + t); err != nil {
			res.Err = "block probe " + t + ": " + err.Error()
			return res
		} else if ok {
			res.Outcome = res.Key + ":delivered"
			res.Info["block_probes_delivered"] = 1
			for len(w.N.Queue) > 0 && len(w.Panics) == 0 {
				w.Deliver()
			}
			if len(w.Panics) == 0 {
				if ok, err := w.Apply("x.e"); ok && err == nil {
					w.Deliver()
					if h, _ := w.I.W.SyncedTo(); h != w.N.Height() && len(w.Panics) == 0 {
						res.Viol = append(res.Viol, fmt.Sprintf("after a block of content %q in state %q the follower no longer applies a new tip (synced %d, tip %d, errors %v)", t, hist[0], h, w.N.Height(), w.HandlerErrs))
					}
				}
			}
			for _, p := range w.Panics {
				res.Viol = append(res.Viol, fmt.Sprintf("block of content %q in state %q: %s", t, hist[0], p))
			}
			if f := env.TakeFatals(); len(f) > 0 {
				res.Viol = append(res.Viol, fmt.Sprintf("block of content %q in state %q: follower ended in a FATAL log exit | %s", t, hist[0], firstLines(f[0].Stack, 14)))
			}
		}
		return res
	}
	if hist[1] == "#follower-malformed" {
		return m.malformed(w, c, hist, res)
	}
	meth, ok := st.MethodByName(hist[1])
	if !ok {
		res.Err = "no method " + hist[1]
		return res
	}
	res.Key = hist[0] + "/" + hist[1]
	res.Quiescent = true
	reqT := meth.Type.In(2).Elem()
	outcomes := map[string]int{}
	calls := 0
	var full, used int
	poisoned := false
	call := func(req reflect.Value) {
		if poisoned {
			// an earlier request panicked inside the wallet: the locks and the write transaction
			// it held are never released (the real process would be gone) - nothing more can be
			// asked of this instance
			return
		}
		calls++
		substituteFresh(req)
		// API calls queue work for a worker that does not run here: keep the queue empty so that
		// later calls are not refused as "too many tasks" before they reach their own code
		defer w.I.W.VerifDrainTasks()
		func() {
			defer func() {
				if e := recover(); e != nil {
					rj, _ := json.Marshal(req.Interface())
					res.Viol = append(res.Viol, fmt.Sprintf("%s panicked in state %q on request %s: %v | %s", hist[1], hist[0], rj, e, firstLines(string(debug.Stack()), 14)))
					poisoned = true
				}
			}()
			outs := sv.Method(meth.Index).Call([]reflect.Value{reflect.ValueOf(context.Background()), req})
			if e, _ := outs[1].Interface().(error); e != nil {
				s := e.Error()
				if len(s) > 60 {
					s = s[:60]
				}
				outcomes["err:"+s]++
			} else {
				outcomes["ok"]++
			}
		}()
		if f := env.TakeFatals(); len(f) > 0 {
			rj, _ := json.Marshal(req.Interface())
			res.Viol = append(res.Viol, fmt.Sprintf("%s ended in a FATAL log exit in state %q on request %s | %s", hist[1], hist[0], rj, firstLines(f[0].Stack, 14)))
		}
	}
	if reqT.NumField() == 0 || reqT.String() == "empty.Empty" {
		call(reflect.New(reqT))
		full, used = 1, 1
	} else {
		full, used = c.product(reqT, m.O.Cap, call)
	}
	if len(res.Viol) > 8 {
		res.Viol = append(res.Viol[:8], fmt.Sprintf("... %d panicking requests in total", len(res.Viol)))
	}
	// follower liveness probe: a new tip must still be applied
	if poisoned {
		res.Info["calls"] = calls
		res.Outcome = fmt.Sprintf("%s/%s:panicked", hist[0], hist[1])
		return res
	}
	if ok, err := w.Apply("x.e"); ok && err == nil {
		before := len(w.HandlerErrs)
		w.Deliver()
		if h, _ := w.I.W.SyncedTo(); h != w.N.Height() && len(w.N.Queue) == 0 {
			res.Viol = append(res.Viol, fmt.Sprintf("after the %s calls the follower no longer applies a new tip (synced %d, tip %d, errors %v)", hist[1], h, w.N.Height(), w.HandlerErrs[before:]))
		}
	}
	res.Info["calls"] = calls
	res.Info["product_full"] = full
	res.Info["product_used"] = used
	res.Info["distinct_answers"] = len(outcomes)
	ob, _ := json.Marshal(outcomes)
	res.Outcome = fmt.Sprintf("%s/%s:%x", hist[0], hist[1], len(ob))
	res.Detail = outcomes
	return res
}

const freshMnemonic = "@fresh-mnemonic@"

var freshCounter uint64

// substituteFresh replaces the freshMnemonic placeholder in string fields of a request.
func substituteFresh(req reflect.Value) {
	v := req
	for v.Kind() == reflect.Ptr {
		if v.IsNil() {
			return
		}
		v = v.Elem()
	}
	if v.Kind() != reflect.Struct {
		return
	}
	for i := 0; i < v.NumField(); i++ {
		f := v.Field(i)
		if f.Kind() == reflect.String && f.CanSet() && f.String() == freshMnemonic {
			freshCounter++
			f.SetString(enum.FreshMnemonic(freshCounter))
		}
	}
}

func firstLines(s string, n int) string {
	l := strings.Split(s, "\n")
	var keep []string
	for _, x := range l {
		if strings.Contains(x, "massnet.org/mass-wallet") || strings.Contains(x, "mass-core") || strings.HasPrefix(x, "panic") {
			keep = append(keep, strings.TrimSpace(x))
		}
		if len(keep) >= n {
			break
		}
	}
	return strings.Join(keep, " | ")
}

// malformed delivers transactions the node should never relay (and some it could) to the
// follower entry point: unknown inputs, out-of-range output indexes of known transactions,
// a coinbase, empty input/output lists, nil and garbage scripts. Nothing may panic, and the
// follower must still apply the next tip.
func (m *Model) malformed(w *world.World, c *ctxT, hist []string, res *proto.Result) *proto.Result {
	res.Key = hist[0] + "/" + hist[1]
	res.Quiescent = true
	A := w.Wallets["A"]
	known, _ := wire.NewHashFromStr(c.txKnown)
	unknown, _ := wire.NewHashFromStr(strings.Repeat("ab", 32))
	var zero wire.Hash
	mk := func(prev *wire.Hash, idx uint32, outs ...*wire.TxOut) *wire.MsgTx {
		tx := wire.NewMsgTx()
		tx.Version = wire.TxVersion
		if prev != nil {
			in := wire.NewTxIn(wire.NewOutPoint(prev, idx), nil)
			tx.AddTxIn(in)
		}
		for _, o := range outs {
			tx.AddTxOut(o)
		}
		return tx
	}
	pay := &wire.TxOut{Value: 1000, PkScript: A.Addrs[0].Pk}
	txs := map[string]*wire.MsgTx{
		"unknown input, pays wallet":           mk(unknown, 0, pay),
		"known tx, output index out of range":  mk(known, 99, pay),
		"known tx, index 2^32-1":               mk(known, 1<<32-1, pay),
		"coinbase-shaped":                      mk(&zero, 1<<32-1, pay),
		"no inputs":                            mk(nil, 0, pay),
		"no outputs":                           mk(known, 0),
		"nil script output":                    mk(known, 0, &wire.TxOut{Value: 1, PkScript: nil}),
		"garbage script output":                mk(known, 0, &wire.TxOut{Value: 1, PkScript: []byte{0x20, 1, 2}}),
		"null-data output + wallet payment":    mk(known, 0, &wire.TxOut{Value: 0, PkScript: []byte{0x6a, 0x01, 0x02}}, pay),
		"negative value":                       mk(known, 0, &wire.TxOut{Value: -5, PkScript: A.Addrs[0].Pk}),
		"binding output with unknown target":   mk(known, 0, &wire.TxOut{Value: 5, PkScript: append(append([]byte{0, 32}, A.Addrs[0].Hash...), append([]byte{22}, append(make([]byte, 20), 9, 9)...)...)}),
		"staking output with zero frozen time": mk(known, 0, &wire.TxOut{Value: 5, PkScript: append(append([]byte{0, 32}, A.Addrs[0].Hash...), append([]byte{8}, make([]byte, 8)...)...)}),
	}
	var names []string
	for n := range txs {
		names = append(names, n)
	}
	sort.Strings(names)
	for _, n := range names {
		func() {
			defer func() {
				if e := recover(); e != nil {
					res.Viol = append(res.Viol, fmt.Sprintf("follower panicked on a relayed transaction (%s) in state %q: %v | %s", n, hist[0], e, firstLines(string(debug.Stack()), 14)))
				}
			}()
			w.I.W.VerifProcessTx(txs[n])
		}()
		if f := env.TakeFatals(); len(f) > 0 {
			res.Viol = append(res.Viol, fmt.Sprintf("follower ended in a FATAL log exit on a relayed transaction (%s) in state %q | %s", n, hist[0], firstLines(f[0].Stack, 14)))
		}
		res.Info["calls"]++
	}
	if ok, err := w.Apply("x.e"); ok && err == nil {
		w.Deliver()
		if h, _ := w.I.W.SyncedTo(); h != w.N.Height() && len(w.N.Queue) == 0 {
			res.Viol = append(res.Viol, fmt.Sprintf("after malformed relays the follower no longer applies a new tip (synced %d, tip %d)", h, w.N.Height()))
		}
	}
	res.Outcome = res.Key
	return res
}
