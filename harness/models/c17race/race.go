// Package c17race is the AUXILIARY free-running pass for the second clause of C17 ("never
// access shared memory without synchronisation"). The cooperative scheduler's hand-offs are
// happens-before edges, so a race detector sees nothing under it; here the same kind of
// bodies (API calls, follower, background import and removal, stop) run as real goroutines
// of an UNINSTRUMENTED build compiled with -race. This pass samples schedules: it is a race
// DETECTOR run, not model checking, and is reported as such.
package c17race

import (
	"encoding/hex"
	"fmt"
	"os"
	"path/filepath"
	"strings"
	"sync"
	"time"

	"github.com/massnetorg/mass-core/massutil"
	"github.com/massnetorg/mass-core/wire"
	"massnet.org/mass-wallet/config"
	"massnet.org/mass-wallet/masswallet/keystore"
	"vh/env"
	"vh/world"
)

type Opts struct {
	Iterations int `json:"iterations"`
	Seconds    int `json:"seconds"`
}

type Out struct {
	Iterations int      `json:"iterations"`
	APICalls   int      `json:"api_calls"`
	Blocks     int      `json:"blocks_announced"`
	Notes      []string `json:"notes"`
}

// Job runs the iterations; race reports go to the GORACE log the parent parses.
func Job(o Opts) (*Out, error) {
	out := &Out{}
	deadline := time.Now().Add(time.Duration(o.Seconds) * time.Second)
	for it := 0; it < o.Iterations; it++ {
		if o.Seconds > 0 && time.Now().After(deadline) {
			out.Notes = append(out.Notes, "deadline reached")
			break
		}
		if err := once(it, out); err != nil {
			return nil, err
		}
		out.Iterations++
	}
	return out, nil
}

func once(it int, out *Out) error {
	dir := filepath.Join(env.Scratch(), fmt.Sprintf("race-%d", it))
	defer os.RemoveAll(dir)
	w, err := world.New(dir, world.Options{SeedName: fmt.Sprint(it % 3)})
	if err != nil {
		return err
	}
	for _, ev := range []string{"x.ab", "d", "x.a2b", "d", "x.ca", "d", "x.pc0", "d"} {
		if ok, err := w.Apply(ev); err != nil || !ok {
			return fmt.Errorf("setup %s: %v %v", ev, ok, err)
		}
	}
	// blocks, reorganisations and relayed (unconfirmed) transactions: the relay path filters a
	// transaction outside any wallet-database write transaction
	tips := [][]string{{"y.in", "x.ca", "x.pa", "y.sp", "x.sa", "x.e", "r.1.E", "x.pa", "y.in", "x.e"}, {"x.pa", "y.in", "x.e", "r.2.P", "x.ca", "y.sp", "x.e", "x.e"}, {"y.in", "y.sp", "x.e", "x.e", "x.e", "x.pa", "r.1.R", "x.e", "y.in"}}[it%3]
	for _, ev := range tips {
		if strings.HasPrefix(ev, "y.") {
			// queue a relayed transaction behind the tips announced so far (Apply would deliver it at once)
			if tx, ok := w.RelayContent(ev[2:], w.Ledger()); ok {
				w.Relayed = append(w.Relayed, tx)
				w.RelayedKind = append(w.RelayedKind, ev[2:])
				w.N.Relay(tx)
			}
			continue
		}
		if ok, err := w.Apply(ev); err != nil {
			return fmt.Errorf("tip %s: %v %v", ev, ok, err)
		}
	}
	type item struct {
		b  *wire.MsgBlock
		tx *wire.MsgTx
	}
	var blocks []item
	for len(w.N.Queue) > 0 {
		nt, _ := w.N.Pop()
		if nt.Block != nil {
			blocks = append(blocks, item{b: nt.Block})
		} else if nt.Tx != nil {
			blocks = append(blocks, item{tx: nt.Tx})
		}
	}
	W := w.I.W
	idA, idB := w.Wallets["A"].ID, w.Wallets["B"].ID
	saddr, _ := massutil.NewAddressWitnessScriptHash(w.SHash, config.ChainParams)
	if err := W.VerifHandlerStart(); err != nil {
		return fmt.Errorf("start: %v", err)
	}
	var wg sync.WaitGroup
	var mu sync.Mutex
	calls := 0
	count := func(n int) { mu.Lock(); calls += n; mu.Unlock() }
	wg.Add(4)
	go func() { // node
		defer wg.Done()
		for _, b := range blocks {
			if b.tx != nil {
				W.VerifOnTransactionReceived(b.tx)
				continue
			}
			W.VerifOnBlockConnected(b.b)
			time.Sleep(time.Duration(it%4) * 200 * time.Microsecond)
		}
	}()
	go func() { // queries
		defer wg.Done()
		for k := 0; k < 12; k++ {
			W.UseWallet(idA)
			W.WalletBalance(1, true)
			W.AddressBalance(1, nil)
			W.GetUtxo(nil)
			amt, _ := massutil.NewAmountFromInt(2 * world.Mass)
			W.AutoCreateRawTransaction(map[string]massutil.Amount{saddr.EncodeAddress(): amt}, 0, massutil.ZeroAmount(), "", "", nil)
			W.Wallets()
			W.SyncedTo()
			count(7)
		}
	}()
	wg.Add(1)
	go func() { // a second client building, estimating and signing at the same time (same addresses)
		defer wg.Done()
		for k := 0; k < 8; k++ {
			amt, _ := massutil.NewAmountFromInt(world.Mass)
			req := map[string]massutil.Amount{saddr.EncodeAddress(): amt}
			// (WalletManager.EstimateTxFee is not called directly: it relies on its callers' lock)
			if hx, _, err := W.AutoCreateRawTransaction(req, 0, massutil.ZeroAmount(), "", "", nil); err == nil {
				if b, derr := hex.DecodeString(hx); derr == nil {
					var tx wire.MsgTx
					if tx.SetBytes(b, wire.Packet) == nil {
						W.SignRawTx([]byte(world.PassA), "ALL", &tx)
					}
				}
			}
			count(2)
		}
	}()
	go func() { // address issuing and listing
		defer wg.Done()
		for k := 0; k < 4; k++ {
			W.NewAddress(massutil.AddressClassWitnessV0)
			W.GetAddresses(massutil.AddressClassWitnessV0)
			W.WalletBalance(1, false)
			count(3)
		}
	}()
	go func() { // background tasks: import C, then remove B
		defer wg.Done()
		W.ImportWalletWithMnemonic(&keystore.WalletParams{Mnemonic: world.MnemonicC, PrivatePassphrase: []byte(world.PassC), Remarks: "C", AddressGapLimit: w.Opt.Gap})
		time.Sleep(time.Duration(it%3) * 300 * time.Microsecond)
		W.RemoveWallet(idB, world.PassB)
		count(2)
	}()
	wg.Wait()
	// let follower and worker drain (bounded wait; an unfinished task is not this pass's concern)
	for k := 0; k < 400; k++ {
		qb, qt, tk := W.VerifQueueLens()
		if qb == 0 && qt == 0 && tk <= 0 {
			break
		}
		time.Sleep(5 * time.Millisecond)
	}
	if it%2 == 0 {
		time.Sleep(10 * time.Millisecond)
	}
	W.VerifHandlerStop()
	w.I.Raw = nil
	w.Close()
	env.TakeFatals()
	out.APICalls += calls
	out.Blocks += len(blocks)
	return nil
}
