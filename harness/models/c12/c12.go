// Package c12 is the state space of property C12: address issuing, payments, reorgs that
// remove payments, restarts and restores.
package c12

import (
	"crypto/sha256"
	"encoding/hex"
	"encoding/json"
	"fmt"
	"math"
	"os"
	"path/filepath"
	"sort"
	"strconv"
	"strings"

	"github.com/massnetorg/mass-core/consensus"
	"github.com/massnetorg/mass-core/massutil"
	"github.com/massnetorg/mass-core/txscript"
	"github.com/massnetorg/mass-core/wire"
	"massnet.org/mass-wallet/config"
	"massnet.org/mass-wallet/masswallet/keystore"
	"vh/enum"
	"vh/env"
	"vh/inst"
	"vh/proto"
	"vh/world"
)

type Opts struct {
	Gap       uint32 `json:"gap"`
	MaxIssue  int    `json:"max_issue"`
	MaxHeight int    `json:"max_height"`
	NoRestore bool   `json:"no_restore"`
}

type Model struct {
	O   Opts
	seq int
}

func New(o Opts) *Model {
	if o.Gap == 0 {
		o.Gap = 2
	}
	if o.MaxIssue == 0 {
		o.MaxIssue = 6
	}
	if o.MaxHeight == 0 {
		o.MaxHeight = 6
	}
	return &Model{O: o}
}

type issued struct {
	Index   uint32
	Staking bool
	Addr    string // as returned by NewAddress
	Std     string
	Hash    []byte
}

type run struct {
	m        *Model
	w        *world.World
	ref      *enum.RefWallet
	issued   []issued
	everPaid map[int]bool
	reorged  bool
	next     uint32
	viol     []string
	tags     map[string]bool
}

func (r *run) fail(tag, f string, a ...interface{}) {
	r.viol = append(r.viol, fmt.Sprintf(f, a...))
	r.tags[tag] = true
}

func (r *run) used(hash []byte) bool {
	for _, c := range r.w.Ledger().ByOrder {
		if string(c.Hash) == string(hash) {
			return true
		}
	}
	return false
}

// allowed is the issuing rule of C12: refuse exactly when none of the last gap-limit issued
// addresses has chain history (the first gap-limit addresses are free).
func (r *run) allowed() bool {
	g := int(r.m.O.Gap)
	if len(r.issued) < g {
		return true
	}
	for _, x := range r.issued[len(r.issued)-g:] {
		if r.used(x.Hash) {
			return true
		}
	}
	return false
}

func (r *run) newAddress(staking bool) error {
	class := uint16(massutil.AddressClassWitnessV0)
	if staking {
		class = massutil.AddressClassWitnessStaking
	}
	want := r.allowed()
	s, err := r.w.I.W.NewAddress(class)
	if err != nil {
		if want {
			r.fail("refuses-allowed", "NewAddress refused (%v) although one of the last %d issued addresses has chain history or fewer than %d were issued (issued %d)", err, r.m.O.Gap, r.m.O.Gap, len(r.issued))
		}
		return nil
	}
	if !want {
		r.fail("issues-beyond-gap", "NewAddress issued index %d although none of the last %d issued addresses has chain history", r.next, r.m.O.Gap)
	}
	ra, rerr := r.ref.Addr(r.next)
	if rerr != nil {
		return rerr
	}
	wantS := ra.Std
	if staking {
		wantS = ra.Staking
	}
	for _, x := range r.issued {
		if x.Addr == s || x.Std == ra.Std && s != wantS {
			r.fail("repeat", "NewAddress returned %s which was returned before", s)
		}
	}
	if !r.ref.Affected && s != wantS {
		r.fail("wrong-index", "NewAddress returned %s, the key chain's address at next index %d is %s", s, r.next, wantS)
	}
	a, err := massutil.DecodeAddress(s, config.ChainParams)
	if err != nil {
		return fmt.Errorf("decode %s: %v", s, err)
	}
	stdA, err := massutil.NewAddressWitnessScriptHash(a.ScriptAddress(), config.ChainParams)
	if err != nil {
		return err
	}
	if _, err := r.w.RegisterAddr(r.w.Wallets["A"], stdA.EncodeAddress()); err != nil {
		return err
	}
	r.issued = append(r.issued, issued{Index: r.next, Staking: staking, Addr: s, Std: stdA.EncodeAddress(), Hash: a.ScriptAddress()})
	r.next++
	return nil
}

func (r *run) pay(i int) (bool, error) {
	if i >= len(r.issued) {
		return false, nil
	}
	l := r.w.Ledger()
	var c *world.Coin
	for _, x := range l.ByOrder {
		if x.SpentAt == 0 && x.Owner == nil && x.Class == world.ClassStd && string(x.Hash) == string(r.w.SHash) && r.w.NextSpendable(x, l) {
			c = x
			break
		}
	}
	if c == nil {
		return false, nil
	}
	x := r.issued[i]
	r.everPaid[i] = true
	var pk []byte
	var err error
	if x.Staking {
		pk, err = txscript.NewScriptBuilder().AddOp(txscript.OP_0).AddData(x.Hash).AddData(le8(consensus.MinFrozenPeriod)).Script()
	} else {
		pk, err = txscript.PayToWitnessScriptHashScript(x.Hash)
	}
	if err != nil {
		return true, err
	}
	tx := wire.NewMsgTx()
	tx.Version = wire.TxVersion
	in := wire.NewTxIn(&c.OP, nil)
	in.Sequence = wire.MaxTxInSequenceNum
	tx.AddTxIn(in)
	tx.AddTxOut(&wire.TxOut{Value: world.Mass + int64(i), PkScript: pk})
	tx.AddTxOut(&wire.TxOut{Value: c.Value - world.Mass - int64(i) - 100000, PkScript: r.w.SPk})
	cb := r.w.N.CoinbaseTx(r.w.N.Height()+1, r.w.SPk, 10*world.Mass)
	if _, err := r.w.N.Extend([]*wire.MsgTx{cb, tx}); err != nil {
		return true, err
	}
	return true, r.w.Deliver()
}

func le8(v uint64) []byte {
	b := make([]byte, 8)
	for i := 0; i < 8; i++ {
		b[i] = byte(v >> (8 * uint(i)))
	}
	return b
}

func (r *run) apply(ev string) (bool, error) {
	p := strings.Split(ev, ":")
	above := int(r.w.N.Height()) - r.w.PrefixLen()
	switch p[0] {
	case "na", "ns":
		if len(r.issued) >= r.m.O.MaxIssue {
			return false, nil
		}
		return true, r.newAddress(p[0] == "ns")
	case "pay":
		if above >= r.m.O.MaxHeight {
			return false, nil
		}
		i, _ := strconv.Atoi(p[1])
		return r.pay(i)
	case "ra":
		if above < 1 || above >= r.m.O.MaxHeight {
			return false, nil
		}
		ok, err := r.w.Apply("r.1.E")
		if !ok || err != nil {
			return ok, err
		}
		r.reorged = true
		return true, r.w.Deliver()
	case "rs":
		if err := r.w.Restart(); err != nil {
			return true, err
		}
		_, err := r.w.I.W.UseWallet(r.w.Wallets["A"].ID)
		return true, err
	}
	return false, fmt.Errorf("unknown event %s", ev)
}

func (m *Model) alphabet() []string {
	a := []string{"na", "ns"}
	for i := 0; i < m.O.MaxIssue; i++ {
		a = append(a, fmt.Sprintf("pay:%d", i))
	}
	return append(a, "ra", "rs")
}

// checkListing compares GetAddresses with what must be listed.
func (r *run) checkListing() {
	W := r.w.I.W
	type ent struct {
		class uint16
		used  bool
	}
	want := map[string]ent{} // std listing: address -> used
	wantSt := map[string]ent{}
	for _, x := range r.issued {
		u := r.used(x.Hash)
		if x.Staking {
			wantSt[x.Addr] = ent{massutil.AddressClassWitnessStaking, u}
		} else {
			want[x.Addr] = ent{massutil.AddressClassWitnessV0, u}
		}
	}
	l0, err := W.GetAddresses(massutil.AddressClassWitnessV0)
	if err != nil {
		r.fail("listing", "GetAddresses(std) error %v", err)
		return
	}
	got := map[string]bool{}
	for _, a := range l0 {
		got[a.Address] = true
		if e, ok := want[a.Address]; ok {
			if a.Used != e.used {
				r.fail("used-flag", "GetAddresses: %s used=%v, best chain pays it: %v", a.Address, a.Used, e.used)
			}
		}
	}
	paidThenRolledBack := func(addr string) bool {
		for i, x := range r.issued {
			if x.Addr == addr && r.everPaid[i] && !r.used(x.Hash) {
				return true
			}
		}
		return false
	}
	for a := range want {
		if !got[a] {
			tag := "listing-missing"
			if paidThenRolledBack(a) {
				tag = "listing-missing-after-rollback"
			}
			r.fail(tag, "GetAddresses(std) does not list issued address %s", a)
		}
	}
	l1, err := W.GetAddresses(massutil.AddressClassWitnessStaking)
	if err != nil {
		r.fail("listing", "GetAddresses(staking) error %v", err)
		return
	}
	got = map[string]bool{}
	for _, a := range l1 {
		got[a.Address] = true
		if e, ok := wantSt[a.Address]; ok && a.Used != e.used {
			r.fail("used-flag", "GetAddresses: staking %s used=%v, best chain pays it: %v", a.Address, a.Used, e.used)
		}
	}
	for a := range wantSt {
		if !got[a] {
			tag := "listing-missing"
			if paidThenRolledBack(a) {
				tag = "listing-missing-after-rollback"
			}
			r.fail(tag, "GetAddresses(staking) does not list issued address %s", a)
		}
	}
	if _, err := W.GetAddresses(math.MaxUint16); err != nil {
		r.fail("listing", "GetAddresses(all) error %v", err)
	}
}

// checkRestore imports the mnemonic into a second, fresh instance on the same node and
// requires that every address with best-chain history is rediscovered.
func (r *run) checkRestore(dir string) {
	hints := []uint32{0, 1, uint32(len(r.issued))}
	for hi, hint := range hints {
		if hi > 0 && hint == hints[hi-1] {
			continue
		}
		env.SeedRand(fmt.Sprintf("restore-%d", hint))
		i2, err := inst.OpenAt(inst.NewMemStore(), r.w.N, r.m.O.Gap, inst.PubPass, nil)
		if err != nil {
			r.fail("restore", "second instance: %v", err)
			return
		}
		i2.W.VerifInitTaskChan()
		ws, err := i2.W.ImportWalletWithMnemonic(&keystore.WalletParams{Mnemonic: r.w.Wallets["A"].Mnemonic, PrivatePassphrase: []byte(world.PassA),
			Remarks: "restored", ExternalIndex: hint, AddressGapLimit: r.m.O.Gap})
		if err != nil {
			r.fail("restore", "ImportWalletWithMnemonic(hint %d): %v", hint, err)
			i2.CloseRaw()
			continue
		}
		if ws.WalletID != r.w.Wallets["A"].ID {
			r.fail("restore-id", "restored wallet id %s differs from original %s", ws.WalletID, r.w.Wallets["A"].ID)
		}
		addrs, err := i2.W.VerifKeystoreManager().GetAddrs(ws.WalletID)
		if err != nil {
			r.fail("restore", "GetAddrs: %v", err)
		}
		have := map[string]bool{}
		for _, a := range addrs {
			have[a] = true
		}
		for _, x := range r.issued {
			if r.used(x.Hash) && !have[x.Std] {
				tag := "restore-misses-used"
				if r.reorged {
					tag = "restore-misses-used-after-reorg"
				}
				r.fail(tag, "restore with hint %d (gap %d) does not find address index %d (%s), which has best-chain history; found %d addresses", hint, r.m.O.Gap, x.Index, x.Std, len(addrs))
			}
		}
		// the restored wallet goes on issuing: once its rescan is done, the next address it hands
		// out must be one it does not hold yet, derived at the next index of the key chain
		done := false
		for k := 0; k < 6 && !done; k++ {
			fin, err := i2.W.VerifRunImportStep(ws.WalletID)
			if err != nil {
				break
			}
			done = fin
		}
		if done {
			if _, err := i2.W.UseWallet(ws.WalletID); err == nil {
				if next, err := i2.W.NewAddress(massutil.AddressClassWitnessV0); err == nil {
					if have[next] {
						r.fail("restore-reissues", "after a restore with hint %d the next NewAddress returns %s, which the restored wallet already holds (%d addresses)", hint, next, len(addrs))
					} else if ra, rerr := r.ref.Addr(uint32(len(addrs))); rerr == nil && !r.ref.Affected && next != ra.Std {
						r.fail("restore-next-index", "after a restore with hint %d that holds %d addresses the next NewAddress returns %s, the key chain's address at index %d is %s", hint, len(addrs), next, len(addrs), ra.Std)
					}
				}
			}
		}
		i2.CloseRaw()
	}
}

func (m *Model) Run(hist []string) *proto.Result {
	res := &proto.Result{Info: map[string]int{}}
	m.seq++
	dir := filepath.Join(env.Scratch(), fmt.Sprintf("c12-%d", m.seq))
	defer os.RemoveAll(dir)
	w, err := world.New(dir, world.Options{Gap: m.O.Gap, NoB: true, NoAddrs: true})
	if err != nil {
		res.Err = "world: " + err.Error()
		return res
	}
	defer func() { w.Close() }()
	ref, err := enum.NewRefWallet(w.Wallets["A"].Mnemonic, world.PassA)
	if err != nil {
		res.Err = "ref wallet: " + err.Error()
		return res
	}
	r := &run{m: m, w: w, ref: ref, tags: map[string]bool{}, everPaid: map[int]bool{}}
	if !ref.Affected && ref.WalletID != w.Wallets["A"].ID {
		r.fail("wallet-id", "wallet id %s, independent derivation gives %s", w.Wallets["A"].ID, ref.WalletID)
	}
	for i, ev := range hist {
		ok, err := r.apply(ev)
		if err != nil {
			res.Err = fmt.Sprintf("event %d %s: %v", i, ev, err)
			return res
		}
		if !ok {
			res.Err = fmt.Sprintf("event %d %s not enabled on replay", i, ev)
			return res
		}
	}
	if err := w.N.SelfCheck(); err != nil {
		res.Err = "sim self-check: " + err.Error()
		return res
	}
	// state key (before the oracle's own side effects)
	kh := sha256.New()
	kh.Write([]byte(w.Key()))
	ib, _ := json.Marshal(r.issued)
	kh.Write(ib)
	res.Key = hex.EncodeToString(kh.Sum(nil)[:16])
	res.Quiescent = true
	// successors
	saved := w.N.Nonce
	for _, ev := range m.alphabet() {
		if m.enabled(r, ev) {
			res.Succ = append(res.Succ, ev)
		}
	}
	w.N.Nonce = saved
	// oracle
	r.checkListing()
	if d, _ := w.CheckLedger(); len(d) > 0 {
		for _, x := range d {
			r.fail("ledger", "ledger: %s", x)
		}
	}
	if !m.O.NoRestore {
		r.checkRestore(dir)
	}
	res.Viol = r.viol
	for t := range r.tags {
		res.KnownTags = append(res.KnownTags, t)
	}
	sort.Strings(res.KnownTags)
	ob, _ := json.Marshal(map[string]interface{}{"issued": len(r.issued), "used": usedVector(r)})
	h := sha256.Sum256(ob)
	res.Outcome = hex.EncodeToString(h[:8])
	res.Info["issued"] = len(r.issued)
	if w.I != nil {
		w.I.W.UseWallet(w.Wallets["A"].ID)
	}
	return res
}

func usedVector(r *run) []bool {
	var v []bool
	for _, x := range r.issued {
		v = append(v, r.used(x.Hash))
	}
	return v
}

func (m *Model) enabled(r *run, ev string) bool {
	p := strings.Split(ev, ":")
	above := int(r.w.N.Height()) - r.w.PrefixLen()
	switch p[0] {
	case "na", "ns":
		return len(r.issued) < m.O.MaxIssue
	case "pay":
		i, _ := strconv.Atoi(p[1])
		return i < len(r.issued) && above < m.O.MaxHeight
	case "ra":
		return above >= 1 && above < m.O.MaxHeight
	case "rs":
		return true
	}
	return false
}
