// Package c01 is the state space of property C01: chain-event / notification-delivery
// histories on the real handler, checked against the reference ledger.
package c01

import (
	"crypto/sha256"
	"encoding/hex"
	"encoding/json"
	"fmt"
	"os"
	"path/filepath"
	"strings"

	"massnet.org/mass-wallet/masswallet"
	"vh/env"
	"vh/proto"
	"vh/world"
)

// Opts bound the alphabet.
type Opts struct {
	Templates []string `json:"templates"`
	Patterns  []string `json:"patterns"`
	MaxReorg  int      `json:"max_reorg"`
	MaxQueue  int      `json:"max_queue"`
	MaxHeight int      `json:"max_height"` // blocks above the prefix
	NoB       bool     `json:"no_b"`
	Gap       int      `json:"gap"`  // address gap limit of the instance (default 20)
	Prod      bool     `json:"prod"` // production consensus constants
	// Setup is a fixed event sequence applied (every event must be enabled) before the
	// explored history: exploration then starts from a non-initial state.
	Setup  []string `json:"setup"`
	Prefix int      `json:"prefix"`
	// Relay adds the C09 alphabet (relayed transactions and the blocks settling them)
	// and the pending-set oracle.
	Relay        bool     `json:"relay"`
	RelayT       []string `json:"relay_templates"`
	PendingBlock []string `json:"pending_blocks"`
	MaxRelay     int      `json:"max_relay"`
	// Import adds the C07 alphabet: import of the external wallet C (API call), single
	// rescan batches, and blocks paying/spending C's addresses.
	Import  bool     `json:"import"`
	CBlocks []string `json:"c_blocks"`
	// Remove adds the C08 alphabet: removal of wallet B (API call) and its background run.
	Remove bool `json:"remove"`
	// NewAddr adds NewAddress calls for wallet A (at most two per history; used as a fault
	// target by C18 and a crash target by C06).
	NewAddr bool `json:"new_addr"`
	// Batch > 0: one rescan batch of an import covers Batch heights instead of 1000 (hook
	// variable read through the harness's source overlay), so that imports over short
	// chains take several batches with events between them.
	Batch uint64 `json:"batch"`
	// Restart adds one orderly restart ("z") to alphabets that have none (C09: the pending set
	// is persistent, the handler's index of it is not).
	Restart bool `json:"restart"`
	// Games adds the C10 oracle (staking/binding histories, withdrawal sequences).
	Games bool `json:"games"`
}

// Model implements proto.Model.
type Model struct {
	O   Opts
	seq int
}

// New creates the model with defaults filled in.
func New(o Opts) *Model {
	if len(o.Templates) == 0 {
		o.Templates = world.BlockTemplates
	}
	if len(o.Patterns) == 0 {
		o.Patterns = world.ReorgPatterns
	}
	if o.MaxReorg == 0 {
		o.MaxReorg = 3
	}
	if o.MaxQueue == 0 {
		o.MaxQueue = 3
	}
	if o.MaxHeight == 0 {
		o.MaxHeight = 8
	}
	if o.Import && len(o.CBlocks) == 0 {
		o.CBlocks = []string{"pc0", "pc1", "pc2", "sc"}
	}
	if o.Relay {
		if len(o.RelayT) == 0 {
			o.RelayT = world.RelayTemplates
		}
		if len(o.PendingBlock) == 0 {
			o.PendingBlock = []string{"cp", "cc", "ci"}
		}
		if o.MaxRelay == 0 {
			o.MaxRelay = 3
		}
	}
	return &Model{O: o}
}

// Alphabet lists all events in canonical (simplest first) order.
func (m *Model) Alphabet() []string {
	a := []string{"d"}
	for _, t := range m.O.Templates {
		a = append(a, "x."+t)
	}
	if m.O.Import {
		a = append(a, "i.m0", "i.m1", "i.s")
		for _, t := range m.O.CBlocks {
			a = append(a, "x."+t)
		}
	}
	if m.O.Remove {
		a = append(a, "k.rm", "k.run", "k.im")
	}
	if m.O.NewAddr {
		a = append(a, "n.a", "n.w")
	}
	if m.O.Import || m.O.Remove || m.O.Restart {
		a = append(a, "z")
	}
	if m.O.Relay {
		for _, t := range m.O.RelayT {
			a = append(a, "y."+t)
		}
		for _, t := range m.O.PendingBlock {
			a = append(a, "x."+t)
		}
	}
	for k := 1; k <= m.O.MaxReorg; k++ {
		for _, p := range m.O.Patterns {
			a = append(a, fmt.Sprintf("r.%d.%s", k, p))
		}
	}
	return a
}

func (m *Model) world() (*world.World, string, error) {
	m.seq++
	dir := filepath.Join(env.Scratch(), fmt.Sprintf("c01-%d", m.seq))
	opt := world.Options{NoB: m.O.NoB, Prefix: m.O.Prefix, Gap: uint32(m.O.Gap)}
	if m.O.Prod {
		opt.Cons = env.Prod()
	}
	w, err := world.New(dir, opt)
	return w, dir, err
}

// Enabled computes which events are enabled in w within the bounds, without changing w.
func (m *Model) Enabled(w *world.World) []string {
	var s []string
	saved := w.N.Nonce
	defer func() { w.N.Nonce = saved }()
	q := len(w.N.Queue)
	above := int(w.N.Height()) - w.PrefixLen()
	for _, ev := range m.Alphabet() {
		switch ev[0] {
		case 'd':
			if q > 0 {
				s = append(s, ev)
			}
		case 'i':
			st := w.TaskStatus("C")
			switch ev {
			case "i.m0", "i.m1":
				if st == "" {
					s = append(s, ev)
				}
			case "i.s":
				if strings.HasPrefix(st, "importing") && w.ImportQueued {
					s = append(s, ev)
				}
			}
		case 'k':
			st := w.TaskStatus("B")
			switch ev {
			case "k.rm":
				if st == "ready" {
					s = append(s, ev)
				}
			case "k.run":
				if st == "removing" {
					s = append(s, ev)
				}
			case "k.im":
				if st == "absent" && !w.BReimported {
					s = append(s, ev)
				}
			}
		case 'n':
			if ev == "n.a" && w.NewAddrCalls < 2 {
				s = append(s, ev)
			}
			if ev == "n.w" && w.Wallets["D"] == nil {
				s = append(s, ev)
			}
		case 'z':
			if q == 0 && m.restarts(w) < 1 {
				s = append(s, ev)
			}
		case 'y':
			if q == 0 && w.RelayCount() < m.O.MaxRelay {
				if _, ok := w.RelayContent(ev[2:], w.Ledger()); ok {
					s = append(s, ev)
				}
			}
		case 'x':
			if q < m.O.MaxQueue && above < m.O.MaxHeight {
				if _, ok := w.Content(ev[2:], w.Ledger()); ok {
					s = append(s, ev)
				} else if _, ok := w.PendingBlockContent(ev[2:], w.Ledger()); ok {
					s = append(s, ev)
				} else if _, ok := w.CContent(ev[2:], w.Ledger()); ok {
					s = append(s, ev)
				}
			}
		case 'r':
			if q < m.O.MaxQueue && above < m.O.MaxHeight {
				if w.ReorgEnabled(ev) {
					s = append(s, ev)
				}
			}
		}
	}
	return s
}

// Run implements proto.Model.
func (m *Model) Run(hist []string) *proto.Result {
	r := &proto.Result{Info: map[string]int{}}
	masswallet.VerifImportBatch = 1000
	if m.O.Batch > 0 {
		masswallet.VerifImportBatch = m.O.Batch
	}
	w, dir, err := m.world()
	defer os.RemoveAll(dir)
	if err != nil {
		r.Err = "world: " + err.Error()
		return r
	}
	defer w.Close()
	for i, ev := range m.O.Setup {
		ok, err := w.Apply(ev)
		if err != nil || !ok {
			r.Err = fmt.Sprintf("setup event %d %s: enabled=%v err=%v", i, ev, ok, err)
			return r
		}
	}
	var opViol []string
	for i, ev := range hist {
		ok, err := w.Apply(ev)
		if err != nil && (ev[0] == 'i' || ev[0] == 'k' || ev[0] == 'n') && i == len(hist)-1 {
			// a wallet operation that the wallet's own status enables fails in a fault-free
			// history (e.g. re-importing the mnemonic of a wallet whose removal completed)
			opViol = append(opViol, fmt.Sprintf("operation %s fails in a fault-free history: %v", ev, err))
			break
		}
		if err != nil {
			r.Err = fmt.Sprintf("event %d %s: %v", i, ev, err)
			return r
		}
		if !ok {
			r.Err = fmt.Sprintf("event %d %s not enabled on replay (nondeterminism?)", i, ev)
			return r
		}
		if len(w.Panics) > 0 {
			return m.died(w, hist, r)
		}
	}
	if err := w.N.SelfCheck(); err != nil {
		r.Err = "simulator self-check: " + err.Error()
		return r
	}
	if err := w.CheckChain(); err != nil {
		r.Err = "simulator chain self-check: " + err.Error()
		return r
	}
	r.Quiescent = len(w.N.Queue) == 0
	r.Key = w.Key()
	r.Succ = m.Enabled(w)
	// Drain: "once every chain-tip notification has been processed".
	for len(w.N.Queue) > 0 {
		if err := w.Deliver(); err != nil {
			r.Err = "drain: " + err.Error()
			return r
		}
		if len(w.Panics) > 0 {
			return m.died(w, hist, r)
		}
	}
	var pre []string
	if m.O.Import || m.O.Remove {
		pre = w.CheckTaskStates()
		if err := w.CompleteTasks(); err != nil {
			// a fault-free history: an accepted import or removal that never completes is a
			// violation (C07 "ends, when the background import finishes", C08 "after a wallet
			// removal completes ... the same mnemonic can be imported again", C20)
			pre = append(pre, "background work does not complete: "+err.Error())
		}
		if len(w.Panics) > 0 {
			return m.died(w, hist, r)
		}
		for len(w.N.Queue) > 0 {
			if err := w.Deliver(); err != nil {
				r.Err = "drain: " + err.Error()
				return r
			}
		}
	}
	diffs, obs := w.CheckLedger()
	diffs = append(diffs, pre...)
	diffs = append(diffs, opViol...)
	if m.O.Import || m.O.Remove {
		diffs = append(diffs, w.CheckTasksDone()...)
	}
	if m.O.Import {
		diffs = append(diffs, w.CheckRestoreC()...)
	}
	if m.O.Remove {
		diffs = append(diffs, w.CheckRemoved()...)
	}
	if m.O.Relay {
		pd := w.CheckPending()
		other := len(diffs)
		for _, x := range pd {
			diffs = append(diffs, "pending: "+x)
		}
		sel := w.CheckSelection()
		for _, x := range sel {
			diffs = append(diffs, "selection: "+x)
		}
		if other == 0 && len(sel) == 0 {
			r.KnownTags = w.PendingKnownTags(pd)
		}
		r.Info["pending_txs"] = len(w.Pend.Txs)
	}
	if m.O.Games {
		for _, x := range w.CheckGames() {
			diffs = append(diffs, "lifecycle: "+x)
		}
		if l := w.Ledger(); true {
			for _, c := range l.ByOrder {
				if c.Owner != nil && c.Class != world.ClassStd {
					r.Info["deposits_seen"]++
					if c.SpentAt != 0 {
						r.Info["withdrawals_seen"]++
					}
				}
			}
		}
	}
	r.Viol = diffs
	if len(diffs) > 0 {
		r.Detail = map[string]interface{}{"handler_errors": w.HandlerErrs, "obs": obs}
	}
	if f := env.TakeFatals(); len(f) > 0 {
		r.Viol = append(r.Viol, fmt.Sprintf("FATAL exit in handler: %d", len(f)))
	}
	b, _ := json.Marshal(obs)
	h := sha256.Sum256(b)
	r.Outcome = hex.EncodeToString(h[:8])
	r.Info["handler_errors"] = len(w.HandlerErrs)
	return r
}

func (m *Model) restarts(w *world.World) int { return w.Restarts }

// died: the follower (or a background step) panicked or was left suspended for good. The real
// goroutine would be gone - and a panic inside a write transaction leaves the writer mutex
// locked - so nothing more is asked of this instance: the state is reported as violating.
func (m *Model) died(w *world.World, hist []string, r *proto.Result) *proto.Result {
	kh := sha256.Sum256([]byte(strings.Join(hist, ",")))
	r.Viol = append([]string{}, w.Panics...)
	r.Key = "died:" + hex.EncodeToString(kh[:12])
	r.Outcome = "died"
	r.Succ = nil
	r.Info["follower_died"] = 1
	env.TakeFatals()
	return r
}
