// Package c06 re-runs histories of the C01/C09 state space over the db seam with one
// planned crash (C06) or one planned storage fault (C18) and checks that, after restart and
// catch-up (resp. after storage works again and the next tip arrives), the wallet reports
// what the reference ledger says.
package c06

import (
	"crypto/sha256"
	"encoding/hex"
	"encoding/json"
	"fmt"
	"os"
	"path/filepath"
	"strconv"
	"strings"
	"time"

	"github.com/syndtr/goleveldb/leveldb/storage"
	"massnet.org/mass-wallet/masswallet"
	mwdb "massnet.org/mass-wallet/masswallet/db"
	"vh/dbseam"
	"vh/env"
	"vh/faultstor"
	"vh/proto"
	"vh/world"
)

type Opts struct {
	NoB  bool   `json:"no_b"`
	Seed string `json:"seed"` // world seed name (changes wallet ids)
	// Tasks: the base histories contain API operations and background steps (import of C,
	// removal of B, NewAddress); the oracle then also covers their completion.
	Tasks bool `json:"tasks"`
	// Batch > 0: heights per rescan batch (hook variable read through the source overlay)
	Batch uint64 `json:"batch"`
}

func isOp(ev string) bool {
	return strings.HasPrefix(ev, "i.") || strings.HasPrefix(ev, "k.") || strings.HasPrefix(ev, "n.") || ev == "z"
}

type Model struct {
	O   Opts
	seq int
}

func New(o Opts) *Model { return &Model{O: o} }

// waitOutcome of one wait for the restarted follower and worker.
type waitOutcome int

const (
	waitIdle    waitOutcome = iota // nothing queued, every wallet ready or gone
	waitStalled                    // nothing queued, nothing committed for the whole stall window, yet a wallet is unfinished
	waitTimeout                    // still busy when the overall limit was reached
)

// waitQuiescent polls until follower and worker have nothing left to do. It tells "still
// working" from "nobody works on it any more": the queues are empty, the database has not
// been committed to for stallWindow, and a wallet is still importing or removing.
func waitQuiescent(w *world.World, progress func() int, limit, stallWindow time.Duration) (waitOutcome, string) {
	deadline := time.Now().Add(limit)
	last, lastChange := "", time.Now()
	unfinished := ""
	for time.Now().Before(deadline) {
		qb, qt, tk := w.I.W.VerifQueueLens()
		ws, err := w.I.W.Wallets()
		busy := err != nil
		unfinished = ""
		sig := fmt.Sprint(qb, qt, tk, progress())
		if err == nil {
			for _, s := range ws {
				sig += fmt.Sprint(s.WalletID, s.Status.SyncedHeight, s.Status.IsRemoved())
				if !s.Status.Ready() || s.Status.IsRemoved() {
					busy = true
					unfinished = s.WalletID
				}
			}
		}
		if qb == 0 && qt == 0 && tk == 0 && !busy {
			return waitIdle, ""
		}
		if sig != last {
			last, lastChange = sig, time.Now()
		} else if qb == 0 && qt == 0 && tk == 0 && unfinished != "" && time.Since(lastChange) > stallWindow {
			return waitStalled, unfinished
		}
		time.Sleep(2 * time.Millisecond)
	}
	return waitTimeout, unfinished
}

// Recover restarts the wallet on the same database the way the loader does: new manager,
// NtfnsHandler.Start (synchronous catch-up, then follower + worker goroutines), wait until
// both are idle, Stop (which closes the database), and reopen for observation. A stall
// (see waitQuiescent) is believed only if a SECOND restart on the same database stalls too.
func Recover(w *world.World, progress func() int) (string, error) {
	for attempt := 0; ; attempt++ {
		if err := w.Restart(); err != nil {
			return "", fmt.Errorf("wallet does not open after the crash: %v", err)
		}
		if err := w.I.W.VerifHandlerStart(); err != nil {
			return "", fmt.Errorf("start-up catch-up failed: %v", err)
		}
		out, who := waitQuiescent(w, progress, 40*time.Second, 4*time.Second)
		w.I.W.VerifHandlerStop()
		// Stop closed the database; reopen the same store to observe
		w.I.Raw = nil
		if err := w.ReopenAfterStop(); err != nil {
			return "", fmt.Errorf("wallet does not reopen after stop: %v", err)
		}
		switch out {
		case waitIdle:
			return "", nil
		case waitTimeout:
			return "inconclusive: follower/worker still busy 40 s after restart", nil
		}
		if attempt >= 1 {
			return "", fmt.Errorf("after restart nobody resumes the background work of wallet %s: task queue and tip queue empty, no database commit for 4 s, wallet still unfinished (observed on two consecutive restarts)", who)
		}
	}
}

func (m *Model) Run(hist []string) *proto.Result {
	res := &proto.Result{Info: map[string]int{}}
	masswallet.VerifImportBatch = 1000
	if m.O.Batch > 0 {
		masswallet.VerifImportBatch = m.O.Batch
	}
	plan := dbseam.NoPlan
	mode := ""
	lowAt := 0
	var base []string
	for _, e := range hist {
		if strings.HasPrefix(e, "#") {
			p := strings.Split(e[1:], ":")
			mode = p[0]
			switch mode {
			case "restart":
				// orderly stop + start after the history (no planned crash)
			case "crash":
				plan.CrashCommit, _ = strconv.Atoi(p[1])
			case "lfail", "ldry":
				// a journal write of the wallet database fails BELOW the ldb backend (faultstor);
				// "ldry" only counts the journal writes of the history
				lowAt, _ = strconv.Atoi(p[1])
			case "fail":
				plan.FailAt, _ = strconv.Atoi(p[1])
				plan.FailRepeat = 1
				if len(p) > 2 {
					plan.FailRepeat, _ = strconv.Atoi(p[2])
				}
			}
			continue
		}
		base = append(base, e)
	}
	tasks := m.O.Tasks
	for _, e := range base {
		if isOp(e) {
			tasks = true // a replayed history names its own pass
		}
	}
	defer func(o bool) { m.O.Tasks = o }(m.O.Tasks)
	m.O.Tasks = tasks
	m.seq++
	dir := filepath.Join(env.Scratch(), fmt.Sprintf("c06-%d", m.seq))
	defer os.RemoveAll(dir)
	var seam *dbseam.DB
	var low *faultstor.Storage
	var lowMem storage.Storage
	if mode == "lfail" || mode == "ldry" {
		low = faultstor.New()
		lowMem = low
	}
	w, err := world.New(dir, world.Options{NoB: m.O.NoB && !m.O.Tasks, SeedName: m.O.Seed, MemStorage: lowMem, Wrap: func(u mwdb.DB) mwdb.DB {
		ns := dbseam.Wrap(u, dbseam.NoPlan)
		if seam != nil {
			// a restart inside the history re-opens the database: plan and counters carry over
			ns.Plan, ns.Calls, ns.Commits, ns.Injected, ns.Disarmed, ns.Committed = seam.Plan, seam.Calls, seam.Commits, seam.Injected, seam.Disarmed, seam.Committed
			ns.Closes, ns.Suspended = seam.Closes, seam.Suspended
		}
		seam = ns
		return seam
	}, HarnessDB: func(begin bool) {
		if seam == nil {
			return
		}
		if begin {
			seam.Suspend()
		} else {
			seam.Resume()
		}
	}})
	if err != nil {
		res.Err = "world: " + err.Error()
		return res
	}
	defer func() { w.Close() }()
	seam.Calls, seam.Commits = 0, 0
	seam.Plan = plan
	if low != nil {
		low.Reset()
		low.FailAt = lowAt
		low.Armed = mode == "lfail"
	}
	crashed := false
	removeAcked := false
	var failedOps []string
	for i, ev := range base {
		if crashed && ev == "d" {
			w.N.Pop() // the wallet is down: the notification is lost
			continue
		}
		if crashed && isOp(ev) {
			continue // the wallet is down: nobody can call it or run its background steps
		}
		var ok bool
		var aerr error
		injectedBefore := seam.Injected
		_, _, tkBefore := w.I.W.VerifQueueLens()
		func() {
			defer func() {
				if e := recover(); e != nil {
					if c, isCrash := e.(dbseam.Crash); isCrash {
						crashed = true
						res.Info["crashed_at_commit"] = c.Commit
						ok = true
						return
					}
					panic(e)
				}
			}()
			ok, aerr = w.Apply(ev)
		}()
		if low != nil && low.Failed > 0 && (aerr != nil || !ok) {
			// the journal write failed below the backend: LevelDB refuses writes until the database
			// is reopened, so whatever is attempted now may fail - but it has to fail cleanly
			res.Info["events_failed_after_low_fault"]++
			if len(w.Panics) > 0 {
				res.Viol = append(res.Viol, w.Panics...)
				res.Outcome = "died"
				return res
			}
			continue
		}
		if aerr != nil && mode == "fail" && ev == "z" && seam.Injected > injectedBefore {
			// the process did not come up: the operator starts it again (the plan stays armed)
			res.Info["restarts_failed_under_fault"]++
			for k := 0; k < 6 && aerr != nil; k++ {
				ok, aerr = w.Apply(ev)
			}
			if aerr != nil {
				res.Viol = append(res.Viol, "the wallet does not start any more after a storage fault during start-up: "+aerr.Error())
				res.Outcome = "restart-failed"
				return res
			}
			continue
		}
		if aerr != nil && mode == "fail" && isOp(ev) && seam.Injected > injectedBefore {
			// the operation reported failure under the injected fault: it is repeated once
			// storage works again
			failedOps = append(failedOps, ev)
			res.Info["ops_failed_under_fault"]++
			// an operation that reports failure must not have handed work to the worker
			if _, _, tk := w.I.W.VerifQueueLens(); tk > tkBefore && tkBefore >= 0 {
				res.Viol = append(res.Viol, fmt.Sprintf("%s reported failure (%v) but left %d new task(s) queued for the worker", ev, aerr, tk-tkBefore))
			}
			continue
		}
		if aerr != nil && mode == "fail" && seam.Injected > 0 {
			// storage works (nothing was injected into THIS event), the event is enabled by what
			// the wallet reports, and it fails: the earlier fault left a trace
			res.Viol = append(res.Viol, fmt.Sprintf("after a storage fault earlier in the history, %s (storage working) fails: %v", ev, aerr))
			res.Outcome = "later-event-failed"
			return res
		}
		if aerr != nil {
			res.Err = fmt.Sprintf("event %d %s: %v", i, ev, aerr)
			return res
		}
		if !ok {
			if mode == "fail" && seam.Injected > 0 && isOp(ev) {
				continue // depends on an operation that failed under the fault
			}
			res.Err = fmt.Sprintf("event %d %s not enabled on replay", i, ev)
			return res
		}
		if len(w.Panics) > 0 {
			// the follower or a background step died (panic / left suspended): the real process
			// would be gone and a panic inside a write transaction leaves the writer mutex locked
			res.Viol = append(res.Viol, w.Panics...)
			res.Outcome = "died"
			return res
		}
		if ev == "k.rm" && !crashed {
			removeAcked = true
		}
		if ev == "k.im" && !crashed {
			removeAcked = false // the removed wallet's mnemonic was imported again
		}
	}
	res.Info["commits"] = seam.Commits
	res.Info["calls"] = seam.Calls
	res.Info["injected"] = seam.Injected
	seam.Disarmed = true
	kb, _ := json.Marshal(hist)
	kh := sha256.Sum256(kb)
	res.Key = hex.EncodeToString(kh[:16])
	res.Quiescent = true
	if mode == "crash" && !crashed {
		// the planned commit does not exist in this run: it proceeds like the dry run
		res.Info["crash_not_reached"] = 1
		mode = ""
	}
	if low != nil {
		res.Info["journal_writes"] = low.Writes
		res.Info["low_faults_injected"] = low.Failed
		low.Armed = false
		if mode == "lfail" && low.Failed > 0 {
			mode = "crash" // the operator restarts the wallet: same recovery and oracle as after a crash
		} else {
			mode = ""
		}
	}
	switch mode {
	case "restart":
		for len(w.N.Queue) > 0 {
			w.N.Pop() // nobody listened
		}
		note, err := Recover(w, func() int { return seam.Committed })
		if err != nil {
			res.Viol = append(res.Viol, err.Error())
			res.Outcome = "recover-failed"
			return res
		}
		if note != "" {
			res.Info["inconclusive"] = 1
			res.Outcome = "inconclusive"
			return res
		}
		if m.O.Tasks {
			res.Viol = append(res.Viol, m.adopt(w)...)
		}
	case "crash":
		for len(w.N.Queue) > 0 {
			w.N.Pop()
		}
		note, err := Recover(w, func() int { return seam.Committed })
		if err != nil {
			res.Viol = append(res.Viol, err.Error())
			res.Outcome = "recover-failed"
			return res
		}
		if note != "" {
			res.Info["inconclusive"] = 1
			res.Outcome = "inconclusive"
			return res
		}
		if m.O.Tasks {
			res.Viol = append(res.Viol, m.adopt(w)...)
			if w.Wallets["C"] != nil {
				if st := w.TaskStatus("C"); st != "ready" {
					res.Viol = append(res.Viol, "after restart and catch-up the imported wallet is "+st+", not ready")
				}
			}
			if removeAcked {
				if st := w.TaskStatus("B"); st != "absent" {
					res.Viol = append(res.Viol, "the removal was accepted before the crash but after restart the wallet is "+st)
				}
			}
		}
	case "fail":
		// storage works again: operations that reported failure are repeated
		for _, ev := range failedOps {
			ok, err := w.Apply(ev)
			if err == nil && ok {
				continue
			}
			switch {
			case strings.HasPrefix(ev, "i.m"):
				// acceptable only if the first attempt took effect after all
				if v := m.adopt(w); len(v) > 0 || w.Wallets["C"] == nil {
					res.Viol = append(res.Viol, fmt.Sprintf("repeating %s after storage works again: enabled=%v err=%v", ev, ok, err))
					res.Viol = append(res.Viol, v...)
				}
			case ev == "k.rm":
				if st := w.TaskStatus("B"); st != "removing" && st != "absent" {
					res.Viol = append(res.Viol, fmt.Sprintf("repeating the removal after storage works again: enabled=%v err=%v, wallet is %s", ok, err, st))
				}
			case ev == "n.a":
				res.Viol = append(res.Viol, fmt.Sprintf("repeating NewAddress after storage works again failed: %v", err))
			}
		}
		if m.O.Tasks {
			if w.RemoveFailed {
				// worker() re-queues a removal that returned an error
				if err := w.RemoveRun(); err != nil {
					res.Viol = append(res.Viol, "the removal still fails once storage works again: "+err.Error())
				}
			}
			res.Viol = append(res.Viol, m.adopt(w)...)
			if err := w.CompleteTasks(); err != nil {
				res.Viol = append(res.Viol, "background work does not complete once storage works again: "+err.Error())
			}
		}
		// deliver what is queued, the node announces one more tip, then the node and its peers
		// announce the still-valid transactions of the pool once more
		for len(w.N.Queue) > 0 {
			if err := w.Deliver(); err != nil {
				res.Err = err.Error()
				return res
			}
		}
		if ok, err := w.Apply("x.e"); err != nil || !ok {
			res.Err = fmt.Sprintf("next tip: %v %v", ok, err)
			return res
		}
		if err := w.Deliver(); err != nil {
			res.Err = err.Error()
			return res
		}
		// (after the catch-up: a wallet that is behind ignores relayed transactions by design)
		res.Info["reannounced"] = w.ReannounceRelayed()
	default:
		for len(w.N.Queue) > 0 {
			if err := w.Deliver(); err != nil {
				res.Err = err.Error()
				return res
			}
		}
		if m.O.Tasks {
			if err := w.CompleteTasks(); err != nil {
				// no fault, no crash in this run: background work that does not complete is the
				// implementation's doing
				res.Viol = append(res.Viol, "background work does not complete: "+err.Error())
			}
			for len(w.N.Queue) > 0 {
				if err := w.Deliver(); err != nil {
					res.Err = err.Error()
					return res
				}
			}
		}
	}
	diffs, obs := w.CheckLedger()
	res.Viol = append(res.Viol, diffs...)
	if len(w.Relayed) > 0 && (mode == "fail" || mode == "") {
		// pending set against the reference pending model (not after a crash: relays announced
		// while the process is down are legitimately unknown to it)
		pd := w.CheckPending()
		if len(diffs) == 0 {
			res.KnownTags = w.PendingKnownTags(pd)
		}
		for _, x := range pd {
			res.Viol = append(res.Viol, "pending: "+x)
		}
	}
	if m.O.Tasks {
		res.Viol = append(res.Viol, w.CheckTasksDone()...)
		res.Viol = append(res.Viol, w.CheckRemoved()...)
		res.Viol = append(res.Viol, w.CheckAddressList()...)
	}
	if len(diffs) > 0 {
		res.Detail = map[string]interface{}{"handler_errors": w.HandlerErrs, "obs": obs}
	}
	if f := env.TakeFatals(); len(f) > 0 {
		res.Viol = append(res.Viol, fmt.Sprintf("FATAL exit: %s", firstLines(f[0].Stack, 12)))
	}
	ob, _ := json.Marshal(obs)
	oh := sha256.Sum256(ob)
	res.Outcome = hex.EncodeToString(oh[:8])
	return res
}

// adopt handles wallets the instance holds although the harness never saw the call return
// (crash or fault inside ImportWalletWithMnemonic): C is adopted, anything else is a phantom.
func (m *Model) adopt(w *world.World) []string {
	u, err := w.UnknownWallets()
	if err != nil {
		return []string{"Wallets(): " + err.Error()}
	}
	var d []string
	for _, id := range u {
		isC, err := w.AdoptC(id)
		if err != nil {
			d = append(d, "adopting "+id+": "+err.Error())
		} else if !isC {
			d = append(d, "phantom wallet "+id+" is listed")
		}
	}
	return d
}

func firstLines(s string, n int) string {
	l := strings.Split(s, "\n")
	if len(l) > n {
		l = l[:n]
	}
	return strings.Join(l, " | ")
}
