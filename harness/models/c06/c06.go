// Package c06 re-runs histories of the C01/C09 state space over the db seam with one
// planned crash (C06) or one planned storage fault (C18) and checks that, after restart and
// catch-up (resp. after storage works again and the next tip arrives), the wallet reports
// what the reference ledger says.
package c06

import (
	"crypto/sha256"
	"encoding/hex"
	"encoding/json"
	"fmt"
	"os"
	"path/filepath"
	"strconv"
	"strings"
	"time"

	mwdb "massnet.org/mass-wallet/masswallet/db"
	"vh/dbseam"
	"vh/env"
	"vh/proto"
	"vh/world"
)

type Opts struct {
	NoB bool `json:"no_b"`
}

type Model struct {
	O   Opts
	seq int
}

func New(o Opts) *Model { return &Model{O: o} }

// waitQuiescent polls until follower and worker have nothing left to do.
func waitQuiescent(w *world.World, d time.Duration) bool {
	deadline := time.Now().Add(d)
	for time.Now().Before(deadline) {
		qb, qt, tk := w.I.W.VerifQueueLens()
		if qb == 0 && qt == 0 && tk == 0 {
			ws, err := w.I.W.Wallets()
			busy := false
			if err == nil {
				for _, s := range ws {
					if !s.Status.Ready() || s.Status.IsRemoved() {
						busy = true
					}
				}
			}
			if !busy {
				return true
			}
		}
		time.Sleep(2 * time.Millisecond)
	}
	return false
}

// Recover restarts the wallet on the same database the way the loader does: new manager,
// NtfnsHandler.Start (synchronous catch-up, then follower + worker goroutines), wait until
// both are idle, Stop (which closes the database), and reopen for observation.
func Recover(w *world.World) (string, error) {
	if err := w.Restart(); err != nil {
		return "", fmt.Errorf("wallet does not open after the crash: %v", err)
	}
	if err := w.I.W.VerifHandlerStart(); err != nil {
		return "", fmt.Errorf("start-up catch-up failed: %v", err)
	}
	ok := waitQuiescent(w, 20*time.Second)
	w.I.W.VerifHandlerStop()
	if !ok {
		return "inconclusive: follower/worker not idle 20 s after restart", nil
	}
	// Stop closed the database; reopen the same store to observe
	w.I.Raw = nil
	if err := w.ReopenAfterStop(); err != nil {
		return "", fmt.Errorf("wallet does not reopen after stop: %v", err)
	}
	return "", nil
}

func (m *Model) Run(hist []string) *proto.Result {
	res := &proto.Result{Info: map[string]int{}}
	plan := dbseam.NoPlan
	mode := ""
	var base []string
	for _, e := range hist {
		if strings.HasPrefix(e, "#") {
			p := strings.Split(e[1:], ":")
			mode = p[0]
			switch mode {
			case "crash":
				plan.CrashCommit, _ = strconv.Atoi(p[1])
			case "fail":
				plan.FailAt, _ = strconv.Atoi(p[1])
				plan.FailRepeat = 1
				if len(p) > 2 {
					plan.FailRepeat, _ = strconv.Atoi(p[2])
				}
			}
			continue
		}
		base = append(base, e)
	}
	m.seq++
	dir := filepath.Join(env.Scratch(), fmt.Sprintf("c06-%d", m.seq))
	defer os.RemoveAll(dir)
	var seam *dbseam.DB
	w, err := world.New(dir, world.Options{NoB: m.O.NoB, Wrap: func(u mwdb.DB) mwdb.DB {
		seam = dbseam.Wrap(u, dbseam.NoPlan)
		return seam
	}})
	if err != nil {
		res.Err = "world: " + err.Error()
		return res
	}
	defer func() { w.Close() }()
	seam.Calls, seam.Commits = 0, 0
	seam.Plan = plan
	crashed := false
	for i, ev := range base {
		if crashed && ev == "d" {
			w.N.Pop() // the wallet is down: the notification is lost
			continue
		}
		var ok bool
		var aerr error
		func() {
			defer func() {
				if e := recover(); e != nil {
					if c, isCrash := e.(dbseam.Crash); isCrash {
						crashed = true
						res.Info["crashed_at_commit"] = c.Commit
						ok = true
						return
					}
					panic(e)
				}
			}()
			ok, aerr = w.Apply(ev)
		}()
		if aerr != nil {
			res.Err = fmt.Sprintf("event %d %s: %v", i, ev, aerr)
			return res
		}
		if !ok {
			res.Err = fmt.Sprintf("event %d %s not enabled on replay", i, ev)
			return res
		}
	}
	res.Info["commits"] = seam.Commits
	res.Info["calls"] = seam.Calls
	res.Info["injected"] = seam.Injected
	seam.Disarmed = true
	kb, _ := json.Marshal(hist)
	kh := sha256.Sum256(kb)
	res.Key = hex.EncodeToString(kh[:16])
	res.Quiescent = true
	switch mode {
	case "crash":
		if !crashed {
			res.Info["crash_not_reached"] = 1
			break
		}
		for len(w.N.Queue) > 0 {
			w.N.Pop()
		}
		note, err := Recover(w)
		if err != nil {
			res.Viol = append(res.Viol, err.Error())
			res.Outcome = "recover-failed"
			return res
		}
		if note != "" {
			res.Info["inconclusive"] = 1
			res.Outcome = "inconclusive"
			return res
		}
	case "fail":
		// storage works again; deliver what is queued, then the node announces one more tip
		for len(w.N.Queue) > 0 {
			if err := w.Deliver(); err != nil {
				res.Err = err.Error()
				return res
			}
		}
		if ok, err := w.Apply("x.e"); err != nil || !ok {
			res.Err = fmt.Sprintf("next tip: %v %v", ok, err)
			return res
		}
		if err := w.Deliver(); err != nil {
			res.Err = err.Error()
			return res
		}
	default:
		for len(w.N.Queue) > 0 {
			if err := w.Deliver(); err != nil {
				res.Err = err.Error()
				return res
			}
		}
	}
	diffs, obs := w.CheckLedger()
	res.Viol = diffs
	if len(diffs) > 0 {
		res.Detail = map[string]interface{}{"handler_errors": w.HandlerErrs, "obs": obs}
	}
	if f := env.TakeFatals(); len(f) > 0 {
		res.Viol = append(res.Viol, fmt.Sprintf("FATAL exit: %s", firstLines(f[0].Stack, 12)))
	}
	ob, _ := json.Marshal(obs)
	oh := sha256.Sum256(ob)
	res.Outcome = hex.EncodeToString(oh[:8])
	return res
}

func firstLines(s string, n int) string {
	l := strings.Split(s, "\n")
	if len(l) > n {
		l = l[:n]
	}
	return strings.Join(l, " | ")
}
