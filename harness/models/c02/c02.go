// Package c02 enumerates transaction-building requests (C02) and signing requests (C03)
// over a list of wallet UTXO shapes produced by real chain histories, and checks every
// answer clause by clause against the reference ledger.
package c02

import (
	"bytes"
	"crypto/sha256"
	"encoding/hex"
	"encoding/json"
	"fmt"
	"os"
	"path/filepath"
	"sort"
	"strings"

	"github.com/btcsuite/btcd/btcec"
	"github.com/massnetorg/mass-core/blockchain"
	"github.com/massnetorg/mass-core/consensus/forks"
	"github.com/massnetorg/mass-core/massutil"
	"github.com/massnetorg/mass-core/txscript"
	"github.com/massnetorg/mass-core/wire"
	"massnet.org/mass-wallet/config"
	"massnet.org/mass-wallet/masswallet"
	"vh/env"
	"vh/proto"
	"vh/world"
)

// Shapes: wallet UTXO shapes by the history that produces them.
var Shapes = map[string][]string{
	"one-big":          {"x.pv.900000000.0", "d"},
	"mixed":            {"x.pv.20000.0", "d", "x.pv.1000000.1", "d", "x.pv.100000000.0", "d", "x.pv.300000000.1", "d"},
	"immature-only":    {"x.ca", "d"},
	"coinbase-mature":  {"x.ca", "d", "x.e", "d", "x.e", "d", "x.e", "d", "x.pv.50000000.1", "d"},
	"locked-mix":       {"x.bo", "d", "x.st", "d", "x.pv.200000000.0", "d", "x.pv.100000000.1", "d"},
	"pending-spent":    {"x.pv.300000000.0", "d", "x.pv.100000000.1", "d", "y.sp"},
	"pending-incoming": {"x.pv.300000000.0", "d", "y.in"},
	"two-wallets":      {"x.pv.200000000.0", "d", "x.pv.500000000.0.B", "d", "x.ab", "d"},
	"many-small":       {"x.pm.40.1000000", "d", "x.pv.100000000.1", "d"},
	"empty":            {},
	// added after the first round (cheap): more maturity / lock / history variety
	"dust-and-big":    {"x.pv.1000.0", "d", "x.pv.900000000.1", "d"},
	"reorged-away":    {"x.pv.300000000.0", "d", "x.pv.200000000.1", "d", "r.1.E", "d"},
	"staking-matured": {"x.st", "d", "x.e", "d", "x.e", "d", "x.e", "d", "x.pv.100000000.0", "d"},
	"binding-new":     {"x.e", "d", "x.e", "d", "x.bn", "d", "x.pv.150000000.1", "d"},
	"restarted":       {"x.pv.300000000.0", "d", "x.pv.100000000.1", "d", "z"},
	"after-spend":     {"x.pv.400000000.0", "d", "x.sa", "d", "x.pv.70000000.1", "d"},
	"top-k-700":       {"x.pm.700.300000", "d", "x.pv.100000000.1", "d"},
	// two outputs of ONE transaction to different addresses with different values: spends
	// take two inputs from the same previous transaction
	"same-tx-two-outs": {"x.p2.300000000.0.200000000.1", "d"},
	// two coins that each exceed small requests, and no small coins: a second draft has to
	// move on to the other big coin
	"two-big": {"x.pv.300000000.0", "d", "x.pv.500000000.1", "d"},
	// more coins than the input cap in three value classes, created in an order that puts a
	// large coin first and medium ones after hundreds of tiny ones: the K largest must be found
	// the same three classes as outputs of ONE transaction in the order large, 648 tiny, 10 medium
	"top-k-ordered": {"x.px.0.0", "d"},
	"top-k-mixed": {"x.pv.900000000.0", "d", "x.pm.330.10000", "d", "x.pm.5.60000000", "d", "x.pm.340.10000", "d", "x.pm.5.60000000", "d", "x.pv.50000000.0", "d"},
}

type Opts struct{}

type Model struct{ seq int }

func New(Opts) *Model { return &Model{} }

type run struct {
	w    *world.World
	viol []string
	n    int
	ok   int
	fail int
	outc map[string]int
}

func (r *run) bad(f string, a ...interface{}) { r.viol = append(r.viol, fmt.Sprintf(f, a...)) }

func amt(v int64) massutil.Amount { a, _ := massutil.NewAmountFromInt(v); return a }

type coinInfo struct {
	c        *world.Coin
	eligible bool
}

// coins of wallet A on the reference ledger, with eligibility for automatic selection.
func (r *run) coins(from string) (map[wire.OutPoint]*coinInfo, int64) {
	l := r.w.Ledger()
	m := map[wire.OutPoint]*coinInfo{}
	var total int64
	for _, c := range l.Unspent(world.OwnedBy("A")) {
		if c.Value == 0 {
			continue
		}
		ci := &coinInfo{c: c}
		ci.eligible = c.Class == world.ClassStd && r.w.NextSpendable(c, l) && len(r.w.Pend.Spenders(c.OP)) == 0 && (from == "" || c.Owner.Std == from)
		if ci.eligible {
			total += c.Value
		}
		m[c.OP] = ci
	}
	return m, total
}

func decode(h string) (*wire.MsgTx, error) {
	b, err := hex.DecodeString(h)
	if err != nil {
		return nil, err
	}
	var tx wire.MsgTx
	if err := tx.SetBytes(b, wire.Packet); err != nil {
		return nil, err
	}
	return &tx, nil
}

func addrOf(pk []byte) string {
	_, as, _, _, err := txscript.ExtractPkScriptAddrs(pk, config.ChainParams)
	if err != nil || len(as) == 0 {
		return "?"
	}
	return as[0].EncodeAddress()
}

// checkBuilt verifies one successfully built transaction against the request.
func (r *run) checkBuilt(what string, tx *wire.MsgTx, fee massutil.Amount, req map[string]int64, userFee int64, from, change string, auto bool, reserved map[wire.OutPoint]bool, subtract map[string]bool, lockTime uint64, payload []byte) {
	coins, _ := r.coins(from)
	seen := map[wire.OutPoint]bool{}
	var in int64
	firstAddr := ""
	for i, ti := range tx.TxIn {
		ci := coins[ti.PreviousOutPoint]
		if seen[ti.PreviousOutPoint] {
			r.bad("%s: spends %v twice", what, ti.PreviousOutPoint)
		}
		seen[ti.PreviousOutPoint] = true
		if ci == nil {
			r.bad("%s: input %v is not an unspent output of the selected wallet on the best chain", what, ti.PreviousOutPoint)
			continue
		}
		if i == 0 {
			firstAddr = ci.c.Owner.Std
		}
		in += ci.c.Value
		if from != "" && ci.c.Owner.Std != from {
			r.bad("%s: input %v belongs to %s, not to the requested sender %s", what, ti.PreviousOutPoint, ci.c.Owner.Std, from)
		}
		if auto {
			if !ci.eligible {
				r.bad("%s: automatic selection chose %v (class %d, height %d) which is immature, locked or spent by a pending transaction", what, ti.PreviousOutPoint, ci.c.Class, ci.c.Height)
			}
			if reserved[ti.PreviousOutPoint] {
				r.bad("%s: automatic selection chose %v which an earlier outstanding draft reserved", what, ti.PreviousOutPoint)
			}
		}
		wantSeq := world.SpendSequence(ci.c, forks.EnforceMASSIP0002WarmUp, 0)
		_ = wantSeq
	}
	// outputs: requested map (+ at most one change)
	want := map[string]int64{}
	nsub := int64(len(subtract))
	for a, v := range req {
		want[a] = v
	}
	var out int64
	var extra []*wire.TxOut
	matched := map[string]bool{}
	for _, o := range tx.TxOut {
		out += o.Value
		a := addrOf(o.PkScript)
		if v, ok := want[a]; ok && !matched[a] {
			exp := v
			if subtract[a] && nsub > 0 {
				share := (fee.IntValue() + nsub - 1) / nsub
				exp = v - share
			}
			if o.Value == exp {
				matched[a] = true
				continue
			}
		}
		extra = append(extra, o)
	}
	for a := range want {
		if !matched[a] {
			r.bad("%s: requested output %s=%d is missing or has another amount (outputs %v, fee %d)", what, a, want[a], outs(tx), fee.IntValue())
		}
	}
	if len(extra) > 1 {
		r.bad("%s: more than one output beyond the requested ones: %v", what, outs(tx))
	} else if len(extra) == 1 {
		a := addrOf(extra[0].PkScript)
		wantChange := change
		if wantChange == "" {
			wantChange = firstAddr
		}
		if a != wantChange {
			r.bad("%s: change goes to %s, expected %s (requested change address %q, first input's address %s)", what, a, wantChange, change, firstAddr)
		}
	}
	if in-out != fee.IntValue() {
		r.bad("%s: inputs-outputs=%d but the reported fee is %d", what, in-out, fee.IntValue())
	}
	if fee.IntValue() < userFee {
		r.bad("%s: fee %d is below the user's fee %d", what, fee.IntValue(), userFee)
	}
	if tx.LockTime != lockTime {
		r.bad("%s: lock time %d, requested %d", what, tx.LockTime, lockTime)
	}
	if !bytes.Equal(tx.Payload, payload) {
		r.bad("%s: payload differs from the requested one", what)
	}
	// relay minimum for the signed size
	signed := *tx
	cp := copyTx(tx)
	if _, err := r.w.I.W.SignRawTx([]byte(world.PassA), "ALL", cp); err == nil {
		signed = *cp
		req, _ := blockchain.CalcMinRequiredTxRelayFee(int64(signed.PlainSize()), massutil.MinRelayTxFee())
		if fee.Cmp(req) < 0 {
			r.bad("%s: fee %d is below the relay minimum %d for the signed size %d", what, fee.IntValue(), req.IntValue(), signed.PlainSize())
		}
	} else {
		r.bad("%s: the wallet cannot sign the transaction it built: %v", what, err)
	}
	maxStd, _ := blockchain.CalcMinRequiredTxRelayFee(int64(blockchain.GetMaxStandardTxSize()), massutil.MinRelayTxFee())
	if fee.IntValue() > userFee && fee.Cmp(maxStd) > 0 {
		r.bad("%s: fee %d exceeds both the user's fee %d and the relay minimum of a standard-size transaction %d", what, fee.IntValue(), userFee, maxStd.IntValue())
	}
}

func outs(tx *wire.MsgTx) []string {
	var s []string
	for _, o := range tx.TxOut {
		s = append(s, fmt.Sprintf("%s=%d", addrOf(o.PkScript), o.Value))
	}
	return s
}

func copyTx(tx *wire.MsgTx) *wire.MsgTx {
	b, _ := tx.Bytes(wire.Packet)
	var c wire.MsgTx
	c.SetBytes(b, wire.Packet)
	return &c
}

// auto enumerates AutoCreateRawTransaction requests.
func (r *run) auto() {
	W := r.w.I.W
	A := r.w.Wallets["A"]
	sa, _ := massutil.NewAddressWitnessScriptHash(r.w.SHash, config.ChainParams)
	S := sa.EncodeAddress()
	foreign := ""
	if B := r.w.Wallets["B"]; B != nil {
		foreign = B.Addrs[0].Std
	}
	_, totalAll := r.coins("")
	// (the two amounts before totalAll leave, with the 10x relay fee as user fee, a change of
	// 5000 and of 1 maxwell when every coin is needed: below the dust limit)
	mrf := massutil.MinRelayTxFee().IntValue()
	amounts := []int64{500, 30000, 50000000, totalAll / 2, totalAll / 3 * 2, totalAll / 6 * 5, totalAll - 200000, totalAll - 10*mrf - 5000, totalAll - 10*mrf - 1, totalAll, totalAll + 1, 10*totalAll + 100000000}
	fees := []int64{0, massutil.MinRelayTxFee().IntValue(), 10 * massutil.MinRelayTxFee().IntValue()}
	froms := []string{"", A.Addrs[0].Std, A.Addrs[1].Std, foreign}
	changes := []string{"", A.Addrs[1].Std, S}
	payloads := [][]byte{nil, bytes.Repeat([]byte{7}, 32)}
	lockTimes := []uint64{0, 1}
	if len(r.eligibleList("")) >= 100 {
		// hundreds of coins: every request walks the whole unspent index and builds transactions
		// with hundreds of inputs. These shapes are about the input cap: the amount axis is kept,
		// the other axes (explored on the small shapes) are reduced to their first value
		fees, froms, changes, payloads, lockTimes = fees[:1], froms[:1], changes[:1], payloads[:1], lockTimes[:1]
	}
	for _, a1 := range amounts {
		if a1 <= 0 {
			continue
		}
		for _, two := range []bool{false, true} {
			for _, uf := range fees {
				for _, lt := range lockTimes {
					for _, from := range froms {
						if from == "" && len(froms) == 0 {
							continue
						}
						for _, ch := range changes {
							for pi, pl := range payloads {
								if pi == 1 && (lt == 1 || two) {
									continue // keep the product small: payload only on the plain variant
								}
								req := map[string]int64{S: a1}
								if two {
									req[A.Addrs[1].Std] = 70000
								}
								am := map[string]massutil.Amount{}
								var outSum int64
								for k, v := range req {
									am[k] = amt(v)
									outSum += v
								}
								r.n++
								what := fmt.Sprintf("AutoCreateRawTransaction(amounts=%v fee=%d lock=%d from=%q change=%q payload=%d)", req, uf, lt, from, ch, len(pl))
								hexs, fee, err := W.AutoCreateRawTransaction(am, lt, amt(uf), from, ch, pl)
								_, elig := r.coins(from)
								maxStd, _ := blockchain.CalcMinRequiredTxRelayFee(int64(blockchain.GetMaxStandardTxSize()), massutil.MinRelayTxFee())
								maxFee := maxStd.IntValue()
								if uf > maxFee {
									maxFee = uf
								}
								if err != nil {
									r.fail++
									r.outc["auto-err:"+err.Error()]++
									if from == foreign && foreign != "" {
										continue // a sender address of another wallet must be refused
									}
									// clear case: eligible funds suffice even for the largest conceivable fee (+ dust margin)
									if elig >= outSum+maxFee+100000 && a1 > 30000 && len(r.eligibleList(from)) < 100 {
										r.bad("%s failed (%v) although eligible funds %d cover outputs %d plus any fee", what, err, elig, outSum)
									}
									// many coins: the standard-size input cap applies - the K largest eligible
									// coins are what counts (K taken 10 below the cap, which only weakens the demand)
									if el := r.eligibleList(from); len(el) >= 100 && a1 > 30000 {
										vals := make([]int64, 0, len(el))
										for _, c := range el {
											vals = append(vals, c.Value)
										}
										sort.Slice(vals, func(i, j int) bool { return vals[i] > vals[j] })
										k := blockchain.GetMaxStandardTxSize()/154 - 10
										var top int64
										for i := 0; i < len(vals) && i < k; i++ {
											top += vals[i]
										}
										if top >= outSum+maxFee+100000 {
											r.bad("%s failed (%v) although the %d largest eligible coins (%d) cover outputs %d plus any fee", what, err, k, top, outSum)
										}
									}
									if elig < outSum+uf && err != masswallet.ErrInsufficientFunds && a1 > 30000 && !strings.Contains(err.Error(), "nsufficient") {
										r.outc["auto-other-error-when-insufficient:"+err.Error()]++
									}
									continue
								}
								r.ok++
								r.outc["auto-ok"]++
								tx, derr := decode(hexs)
								if derr != nil {
									r.bad("%s returned undecodable hex: %v", what, derr)
									continue
								}
								if from == foreign && foreign != "" {
									r.bad("%s succeeded although the sender address belongs to another wallet", what)
								}
								if elig < outSum+uf {
									r.bad("%s succeeded although eligible funds %d do not cover outputs %d + fee %d", what, elig, outSum, uf)
								}
								r.checkBuilt(what, tx, fee, req, uf, from, ch, true, nil, nil, lt, pl)
								W.ClearUsedUTXOMark(tx)
							}
						}
					}
				}
			}
		}
	}
}

func (r *run) eligibleList(from string) []*world.Coin {
	m, _ := r.coins(from)
	var l []*world.Coin
	for _, ci := range m {
		if ci.eligible {
			l = append(l, ci.c)
		}
	}
	sort.Slice(l, func(i, j int) bool { return l[i].Seq < l[j].Seq })
	return l
}

// sequence: two consecutive create calls; the second must not reuse the first one's inputs.
func (r *run) sequence() {
	W := r.w.I.W
	sa, _ := massutil.NewAddressWitnessScriptHash(r.w.SHash, config.ChainParams)
	S := sa.EncodeAddress()
	_, total := r.coins("")
	firsts := []int64{total / 4, total / 2, 10000000, 150000000}
	for _, a1 := range firsts {
		if a1 < 100000 || a1 > total {
			continue
		}
		r.n++
		h1, _, err := W.AutoCreateRawTransaction(map[string]massutil.Amount{S: amt(a1)}, 0, amt(0), "", "", nil)
		if err != nil {
			r.outc["seq-first-err:"+err.Error()]++
			continue
		}
		t1, _ := decode(h1)
		reserved := map[wire.OutPoint]bool{}
		coins, _ := r.coins("")
		free := total
		for _, ti := range t1.TxIn {
			reserved[ti.PreviousOutPoint] = true
			if ci := coins[ti.PreviousOutPoint]; ci != nil && ci.eligible {
				free -= ci.c.Value
			}
		}
		maxStd, _ := blockchain.CalcMinRequiredTxRelayFee(int64(blockchain.GetMaxStandardTxSize()), massutil.MinRelayTxFee())
		for _, a2 := range []int64{70000, 10000000, total / 3, total - a1} {
			if a2 <= 0 {
				continue
			}
			r.n++
			what := fmt.Sprintf("second AutoCreateRawTransaction(%d) after an outstanding draft of %d", a2, a1)
			h2, fee2, err := W.AutoCreateRawTransaction(map[string]massutil.Amount{S: amt(a2)}, 0, amt(0), "", "", nil)
			if err != nil {
				r.outc["seq-second-err:"+err.Error()]++
				// clear case: what the first draft left free covers the request plus any fee
				if free >= a2+maxStd.IntValue()+100000 && a2 > 30000 && len(r.eligibleList("")) < 100 {
					r.bad("%s failed (%v) although the coins the first draft did not reserve (%d) cover the outputs plus any fee", what, err, free)
				}
				continue
			}
			r.outc["seq-second-ok"]++
			t2, _ := decode(h2)
			r.checkBuilt(what, t2, fee2, map[string]int64{S: a2}, 0, "", "", true, reserved, nil, 0, nil)
			W.ClearUsedUTXOMark(t2)
		}
		W.ClearUsedUTXOMark(t1)
	}
}

// manual enumerates CreateRawTransaction requests with explicit inputs.
func (r *run) manual() {
	W := r.w.I.W
	A := r.w.Wallets["A"]
	sa, _ := massutil.NewAddressWitnessScriptHash(r.w.SHash, config.ChainParams)
	S := sa.EncodeAddress()
	l := r.w.Ledger()
	coins, _ := r.coins("")
	var own []*world.Coin
	for _, ci := range coins {
		if ci.c.Class == world.ClassStd {
			own = append(own, ci.c)
		}
	}
	sort.Slice(own, func(i, j int) bool { return own[i].Seq < own[j].Seq })
	var foreign, spent *world.Coin
	for _, c := range l.ByOrder {
		if c.Owner != nil && c.Owner.Wallet == "B" && c.SpentAt == 0 && foreign == nil {
			foreign = c
		}
		if c.Owner != nil && c.Owner.Wallet == "A" && c.SpentAt != 0 && spent == nil {
			spent = c
		}
	}
	type inset struct {
		name string
		ins  []*world.Coin
		bad  bool
	}
	var sets []inset
	if len(own) > 0 {
		sets = append(sets, inset{"one own coin", own[:1], false}, inset{"same coin twice", []*world.Coin{own[0], own[0]}, true})
	}
	if len(own) > 1 {
		sets = append(sets, inset{"two own coins", own[:2], false})
	}
	if foreign != nil {
		sets = append(sets, inset{"coin of another wallet", []*world.Coin{foreign}, true})
		if len(own) > 0 {
			sets = append(sets, inset{"own + foreign coin", []*world.Coin{own[0], foreign}, true})
		}
	}
	if spent != nil {
		// C02 requires "unspent" only of automatic selection: an explicit input that a
		// confirmed transaction already spent may be refused or built; if built, every other
		// clause (ownership, value conservation, change, fee) must hold
		sets = append(sets, inset{"already spent coin (open: may be refused)", []*world.Coin{spent}, false})
	}
	if len(own) > 0 {
		// the same output named twice with two spellings of its id (hex digits are case-insensitive)
		sets = append(sets, inset{"same coin twice, id in lower and upper case", []*world.Coin{own[0], own[0]}, true})
	}
	for _, st := range sets {
		var sum int64
		var ins []*masswallet.TxIn
		for k, c := range st.ins {
			sum += c.Value
			id := c.OP.Hash.String()
			if k == 1 && strings.Contains(st.name, "upper case") {
				id = strings.ToUpper(id)
			}
			ins = append(ins, &masswallet.TxIn{TxId: id, Vout: c.OP.Index})
		}
		for _, a1 := range []int64{sum / 2, sum - 100000, sum, 2 * sum} {
			if a1 <= 1000 {
				continue
			}
			for _, ch := range []string{"", A.Addrs[1].Std} {
				for _, sub := range []bool{false, true} {
					for _, lt := range []uint64{0, 1} {
						r.n++
						req := map[string]int64{S: a1}
						var subm map[string]struct{}
						subB := map[string]bool{}
						if sub {
							subm = map[string]struct{}{S: {}}
							subB[S] = true
						}
						what := fmt.Sprintf("CreateRawTransaction(%s, amounts=%v, lock=%d, change=%q, subtractfee=%v)", st.name, req, lt, ch, sub)
						hexs, fee, err := W.CreateRawTransaction(ins, map[string]massutil.Amount{S: amt(a1)}, lt, ch, subm)
						if err != nil {
							r.fail++
							r.outc["manual-err:"+err.Error()]++
							if !st.bad && a1 <= sum/2 && !strings.Contains(st.name, "(open") {
								r.bad("%s failed (%v) although the inputs are own unspent coins worth %d", what, err, sum)
							}
							continue
						}
						r.ok++
						r.outc["manual-ok"]++
						tx, derr := decode(hexs)
						if derr != nil {
							r.bad("%s returned undecodable hex: %v", what, derr)
							continue
						}
						W.ClearUsedUTXOMark(tx)
						if st.bad {
							r.bad("%s succeeded", what)
							continue
						}
						if len(tx.TxIn) != len(ins) {
							r.bad("%s: built %d inputs for %d requested", what, len(tx.TxIn), len(ins))
						}
						if strings.Contains(st.name, "(open") {
							// the reference resolves unspent coins only: check what C02 states for any
							// built transaction directly - exactly the named inputs, value conserved
							var outv int64
							for _, o := range tx.TxOut {
								outv += o.Value
							}
							for k, in := range tx.TxIn {
								if k < len(st.ins) && in.PreviousOutPoint != st.ins[k].OP {
									r.bad("%s: input %d is %v, not the requested %v", what, k, in.PreviousOutPoint, st.ins[k].OP)
								}
							}
							if sum-outv != fee.IntValue() {
								r.bad("%s: inputs-outputs=%d but the reported fee is %d", what, sum-outv, fee.IntValue())
							}
							continue
						}
						r.checkBuilt(what, tx, fee, req, 0, "", ch, false, nil, subB, lt, nil)
					}
				}
			}
		}
	}
}

// sign enumerates SignRawTx over built transactions x 6 sighash flags and a wrong-passphrase family (C03).
func (r *run) sign() {
	W := r.w.I.W
	A := r.w.Wallets["A"]
	sa, _ := massutil.NewAddressWitnessScriptHash(r.w.SHash, config.ChainParams)
	S := sa.EncodeAddress()
	l := r.w.Ledger()
	coins, _ := r.coins("")
	var txs []*wire.MsgTx
	var names []string
	// automatic: 1..n inputs
	_, total := r.coins("")
	for _, a1 := range []int64{60000, total / 2, total - 300000} {
		if a1 <= 0 {
			continue
		}
		for _, pl := range [][]byte{nil, bytes.Repeat([]byte{9}, 32)} {
			for _, lt := range []uint64{0, 1} {
				h, _, err := W.AutoCreateRawTransaction(map[string]massutil.Amount{S: amt(a1), A.Addrs[1].Std: amt(80000)}, lt, amt(0), "", "", pl)
				if err != nil {
					continue
				}
				tx, _ := decode(h)
				W.ClearUsedUTXOMark(tx)
				txs = append(txs, tx)
				names = append(names, fmt.Sprintf("auto(%d, lock %d, payload %d)", a1, lt, len(pl)))
			}
		}
	}
	// withdrawals of staking/binding deposits that are withdrawable
	for _, ci := range coins {
		if ci.c.Class != world.ClassStd && r.w.NextSpendable(ci.c, l) {
			h, _, err := W.CreateRawTransaction([]*masswallet.TxIn{{TxId: ci.c.OP.Hash.String(), Vout: ci.c.OP.Index}}, map[string]massutil.Amount{A.Addrs[0].Std: amt(ci.c.Value - 1000000)}, 0, "", nil)
			if err == nil {
				tx, _ := decode(h)
				W.ClearUsedUTXOMark(tx)
				txs = append(txs, tx)
				names = append(names, fmt.Sprintf("withdrawal of class %d", ci.c.Class))
			} else {
				r.outc["withdraw-create-err:"+err.Error()]++
			}
		}
	}
	// spends of PENDING outputs of the wallet (C03: "confirmed or pending"): every output a
	// relayed, still unconfirmed transaction pays to wallet A, alone and together with a
	// confirmed coin
	pendingOuts := 0
	for _, ptx := range r.w.Pend.Txs {
		for vout, o := range ptx.TxOut {
			if addrOf(o.PkScript) != A.Addrs[0].Std && addrOf(o.PkScript) != A.Addrs[1].Std {
				continue
			}
			if o.Value < 2000000 {
				continue
			}
			pendingOuts++
			ins := []*masswallet.TxIn{{TxId: ptx.TxHash().String(), Vout: uint32(vout)}}
			h, _, err := W.CreateRawTransaction(ins, map[string]massutil.Amount{S: amt(o.Value - 1000000)}, 0, "", nil)
			if err == nil {
				tx, _ := decode(h)
				W.ClearUsedUTXOMark(tx)
				txs = append(txs, tx)
				names = append(names, fmt.Sprintf("wallet-built spend of pending output %d of a relayed transaction", vout))
			} else {
				r.outc["pending-input-create-err:"+err.Error()]++
			}
			// the same spend written by the client itself (SignRawTransaction takes any transaction)
			ph := ptx.TxHash()
			raw := wire.NewMsgTx()
			raw.Version = wire.TxVersion
			raw.AddTxIn(wire.NewTxIn(wire.NewOutPoint(&ph, uint32(vout)), nil))
			raw.AddTxOut(&wire.TxOut{Value: o.Value - 1000000, PkScript: r.w.SPk})
			txs = append(txs, raw)
			names = append(names, fmt.Sprintf("client-written spend of pending output %d of a relayed transaction", vout))
		}
	}
	r.outc[fmt.Sprintf("pending-outputs-of-wallet:%d", pendingOuts)]++
	flags := []string{"ALL", "NONE", "SINGLE", "ALL|ANYONECANPAY", "NONE|ANYONECANPAY", "SINGLE|ANYONECANPAY"}
	wrong := []string{"", world.PassB, "publicpassVerif1", world.PassA + "x", world.PassA[:len(world.PassA)-1], strings.ToUpper(world.PassA), "privpassA2",
		" " + world.PassA, world.PassA + " ", world.PassA + "\n", "\t" + world.PassA, world.PassA + "\r\n", world.PassA + world.PassA}
	// (the right passphrase followed by NUL bytes is NOT in the family: HMAC zero-pads its key,
	// so PBKDF2/scrypt derive the same key from both - a property of the KDF, not of the wallet)
	for ti, tx := range txs {
		for fi, flag := range flags {
			r.n++
			orig, _ := tx.Bytes(wire.Packet)
			// wrong passphrases first (also after an earlier successful unlock of this world)
			if fi == 1 {
				// ... and once right after every key of the wallet was used through SignHash with
				// the right passphrase (a signing entry point that leaves what it derived in place):
				// whatever is cached, a wrong passphrase must still be refused
				if list, err := W.GetAllAddressesWithPubkey(); err == nil {
					dg := sha256.Sum256([]byte("verif c03"))
					for _, ad := range list {
						if ad.PubKey != nil {
							if _, err := W.SignHash(ad.PubKey, dg[:], []byte(world.PassA)); err != nil {
								r.outc["signhash-err:"+err.Error()]++
							}
						}
					}
				}
			}
			for _, wp := range wrong {
				cp := copyTx(tx)
				b, err := W.SignRawTx([]byte(wp), flag, cp)
				if err == nil || b != nil {
					r.bad("SignRawTx(%s, %s) accepted the wrong passphrase %q (returned %d bytes)", names[ti], flag, wp, len(b))
				}
				after, _ := cp.Bytes(wire.Packet)
				if !bytes.Equal(after, orig) {
					r.bad("SignRawTx(%s, %s) with wrong passphrase %q left signature material in the transaction", names[ti], flag, wp)
				}
			}
			cp := copyTx(tx)
			b, err := W.SignRawTx([]byte(world.PassA), flag, cp)
			if err != nil {
				// SINGLE with fewer outputs than inputs cannot sign every input: not required to succeed
				if strings.HasPrefix(flag, "SINGLE") && len(tx.TxIn) > len(tx.TxOut) {
					r.outc["sign-single-fewer-outputs"]++
					continue
				}
				r.bad("SignRawTx(%s, %s) with the right passphrase failed: %v", names[ti], flag, err)
				continue
			}
			r.ok++
			r.outc["sign-ok"]++
			var st wire.MsgTx
			if err := st.SetBytes(b, wire.Packet); err != nil {
				r.bad("SignRawTx(%s, %s) returned undecodable bytes: %v", names[ti], flag, err)
				continue
			}
			// only witnesses may differ
			strip := copyTx(&st)
			for _, in := range strip.TxIn {
				in.Witness = nil
			}
			sb, _ := strip.Bytes(wire.Packet)
			if !bytes.Equal(sb, orig) {
				r.bad("SignRawTx(%s, %s) changed something other than the witnesses", names[ti], flag)
			}
			// independent engine run + ECDSA check per input
			hc := txscript.NewTxSigHashes(&st)
			for i, in := range st.TxIn {
				var pk []byte
				var val int64
				var prevHeight uint64
				if ci := coins[in.PreviousOutPoint]; ci != nil {
					pk, val, prevHeight = ci.c.Pk, ci.c.Value, ci.c.Height
				} else if ptx := r.w.Pend.Txs[in.PreviousOutPoint.Hash]; ptx != nil && int(in.PreviousOutPoint.Index) < len(ptx.TxOut) {
					// output of a pending transaction: it can be mined in the next block at the earliest
					o := ptx.TxOut[in.PreviousOutPoint.Index]
					pk, val, prevHeight = o.PkScript, o.Value, l.Height+1
				} else {
					continue
				}
				vf := txscript.StandardVerifyFlags
				if forks.EnforceMASSIP0002WarmUp(prevHeight) {
					vf |= txscript.ScriptMASSip2
				}
				vm, err := txscript.NewEngine(pk, &st, i, vf, nil, hc, val)
				if err == nil {
					err = vm.Execute()
				}
				if err != nil {
					r.bad("SignRawTx(%s, %s): input %d does not pass the consensus script engine: %v", names[ti], flag, i, err)
					continue
				}
				if len(in.Witness) != 2 {
					r.bad("SignRawTx(%s, %s): input %d has %d witness items", names[ti], flag, i, len(in.Witness))
					continue
				}
				// witness[1] is the redeem script OP_1 <pub> OP_1 OP_CHECKMULTISIG: the key must be the address's
				redeem := in.Witness[1]
				if len(redeem) == 37 {
					if _, err := btcec.ParsePubKey(redeem[2:35], btcec.S256()); err != nil {
						r.bad("SignRawTx(%s, %s): input %d redeem script holds no valid public key", names[ti], flag, i)
					}
				}
			}
			_ = fi
		}
	}
}

var families = []string{"auto", "sequence", "manual", "sign"}

func (m *Model) Run(hist []string) *proto.Result {
	res := &proto.Result{Info: map[string]int{}}
	if len(hist) == 0 {
		res.Key, res.Outcome, res.Quiescent = "root", "root", true
		for s := range Shapes {
			res.Succ = append(res.Succ, s)
		}
		sort.Strings(res.Succ)
		return res
	}
	if len(hist) == 1 {
		res.Key, res.Outcome, res.Quiescent = "shape:"+hist[0], "shape:"+hist[0], true
		res.Succ = families
		return res
	}
	m.seq++
	dir := filepath.Join(env.Scratch(), fmt.Sprintf("c02-%d", m.seq))
	defer os.RemoveAll(dir)
	w, err := world.New(dir, world.Options{})
	if err != nil {
		res.Err = "world: " + err.Error()
		return res
	}
	defer func() { w.Close() }()
	for i, ev := range Shapes[hist[0]] {
		ok, err := w.Apply(ev)
		if err != nil || !ok {
			res.Err = fmt.Sprintf("shape %s event %d %s: enabled=%v err=%v", hist[0], i, ev, ok, err)
			return res
		}
	}
	if d, _ := w.CheckLedger(); len(d) > 0 {
		res.Err = fmt.Sprintf("shape %s: ledger differs from the reference before any request (C01 matter): %v", hist[0], d)
		return res
	}
	w.I.W.UseWallet(w.Wallets["A"].ID)
	r := &run{w: w, outc: map[string]int{}}
	switch hist[1] {
	case "auto":
		r.auto()
	case "sequence":
		r.sequence()
	case "manual":
		r.manual()
	case "sign":
		r.sign()
	}
	if len(r.viol) > 12 {
		r.viol = append(r.viol[:12], fmt.Sprintf("... %d violations in total", len(r.viol)))
	}
	res.Viol = r.viol
	res.Key = hist[0] + "/" + hist[1]
	res.Quiescent = true
	res.Info["requests"] = r.n
	res.Info["succeeded"] = r.ok
	res.Info["refused"] = r.fail
	ob, _ := json.Marshal(r.outc)
	res.Outcome = fmt.Sprintf("%s/%s:%d:%d", hist[0], hist[1], r.ok, len(ob))
	res.Detail = r.outc
	return res
}
