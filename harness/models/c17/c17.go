//go:build vinstr

// Package c17 enumerates, with the controlled scheduler on the instrumented real code,
// every placement of the follower's database commits among the database reads of one
// query (property C17, first clause). Thread Q runs one public query; thread H processes
// the queued tips exactly as handle() does with each queue item. The only preemption
// points are Q's reads through its read transaction and H's commits (db seam gates), with
// no bound on their number: C(r+c, c) schedules for r reads and c commits.
//
// Oracle (differential, no hand-written expectation): the answer must equal the answer the
// same query gives when it runs alone at one of the block boundaries that lie between its
// first and its last read ("sequential twins", computed on fresh instances without any
// concurrency).
package c17

import (
	"encoding/json"
	"fmt"
	"os"
	"path/filepath"
	"sort"
	"strings"
	"time"

	"github.com/massnetorg/mass-core/massutil"
	"massnet.org/mass-wallet/config"
	mwdb "massnet.org/mass-wallet/masswallet/db"
	"massnet.org/mass-wallet/masswallet/vshim"
	"vh/dbseam"
	"vh/env"
	"vh/sched"
	"vh/world"
)

// Scn is one scenario: a delivered history, queued tips, one or two queries.
type Scn struct {
	Name    string   `json:"name"`
	Setup   []string `json:"setup"`   // events applied and delivered before the explored part
	Tips    []string `json:"tips"`    // node events whose notifications stay queued for thread H
	Queries []string `json:"queries"` // one thread per query
	Deep    bool     `json:"deep"`    // thorough tier only
}

var (
	hist1 = []string{"x.ca", "d", "x.pa", "d", "x.ca", "d", "x.e", "d", "x.st", "d"}
	hist2 = []string{"x.ca", "d", "x.ca", "d", "x.pa", "d", "x.pa", "d", "x.e", "d"}
)

func scenarios() []Scn {
	var l []Scn
	writers := []struct {
		name  string
		setup []string
		tips  []string
	}{
		{"2coinbase", hist1, []string{"x.ca", "x.ca"}},
		{"pay+spend", hist1, []string{"x.pa", "x.sa"}},
		{"spend+spend", hist2, []string{"x.sa", "x.sa"}},
		{"reorg2", hist2, []string{"r.2.P"}},
		{"3coinbase", hist1, []string{"x.ca", "x.ca", "x.ca"}},
		{"reorg1+pay", hist2, []string{"r.1.E", "x.pa"}},
	}
	for _, w := range writers {
		for _, q := range []string{"wb", "ab", "ut", "tx"} {
			l = append(l, Scn{Name: q + "/" + w.name, Setup: w.setup, Tips: w.tips, Queries: []string{q}})
		}
	}
	// two queries at once
	l = append(l, Scn{Name: "wb+ut/2coinbase", Setup: hist1, Tips: []string{"x.ca", "x.ca"}, Queries: []string{"wb", "ut"}})
	l = append(l, Scn{Name: "tx+ab/pay+spend", Setup: hist1, Tips: []string{"x.pa", "x.sa"}, Queries: []string{"tx", "ab"}})
	// thorough tier: four commits, richer coin sets (staking + binding deposits and withdrawals)
	hist3 := []string{"x.ca", "d", "x.pa", "d", "x.st", "d", "x.bn", "d", "x.ca", "d", "x.e", "d", "x.e", "d"}
	deep := []struct {
		name  string
		setup []string
		tips  []string
	}{
		{"4blocks", hist1, []string{"x.ca", "x.pa", "x.sa", "x.ca"}},
		{"withdrawals", hist3, []string{"x.sw", "x.bw", "x.ca"}},
		{"reorg2+2", hist2, []string{"r.2.P", "x.pa", "x.sa"}},
		{"reorg3R", []string{"x.ca", "d", "x.ca", "d", "x.e", "d", "x.st", "d", "x.bn", "d", "x.pa", "d"}, []string{"r.3.R", "x.ca"}},
	}
	for _, w := range deep {
		for _, q := range []string{"wb", "ab", "ut", "tx"} {
			l = append(l, Scn{Name: q + "/" + w.name, Setup: w.setup, Tips: w.tips, Queries: []string{q}, Deep: true})
		}
	}
	l = append(l, Scn{Name: "ut+ab/withdrawals", Setup: hist3, Tips: []string{"x.sw", "x.bw"}, Queries: []string{"ut", "ab"}, Deep: true})
	return l
}

// Scenarios is the scenario list.
var Scenarios = scenarios()

type Opts struct {
	Scenario int   `json:"scenario"`
	Shard    int   `json:"shard"`
	NShards  int   `json:"nshards"`
	MaxExec  int   `json:"max_exec"`
	Seconds  int   `json:"seconds"`
	Replay   []int `json:"replay"`
	List     bool  `json:"list"`
	Twins    bool  `json:"twins"` // only print the sequential twin answers
}

type Out struct {
	Scenario   string            `json:"scenario"`
	Bound      int               `json:"bound"`
	Stats      *sched.Stats      `json:"stats"`
	Violations []sched.Violation `json:"violations"`
	Twins      [][]string        `json:"twins,omitempty"`
	Reads      map[string]int    `json:"reads,omitempty"`
	Mixed      int               `json:"mixed_window_executions"`
}

var seq int

// query runs one public query and returns its canonical answer.
func query(w *world.World, q string) string {
	switch q {
	case "wb":
		wb, err := w.I.W.WalletBalance(1, true)
		if err != nil {
			return "err: " + err.Error()
		}
		return fmt.Sprintf("total=%d spendable=%d wstaking=%d wbinding=%d", wb.Total.IntValue(), wb.Spendable.IntValue(), wb.WithdrawableStaking.IntValue(), wb.WithdrawableBinding.IntValue())
	case "ab":
		abs, err := w.I.W.AddressBalance(1, nil)
		if err != nil {
			return "err: " + err.Error()
		}
		var l []string
		for _, ab := range abs {
			l = append(l, fmt.Sprintf("%s total=%d spendable=%d wstaking=%d wbinding=%d", ab.Address[:12], ab.Total.IntValue(), ab.Spendable.IntValue(), ab.WithdrawableStaking.IntValue(), ab.WithdrawableBinding.IntValue()))
		}
		sort.Strings(l)
		return strings.Join(l, "; ")
	case "ut":
		um, err := w.I.W.GetUtxo(nil)
		if err != nil {
			return "err: " + err.Error()
		}
		var l []string
		for _, us := range um {
			for _, u := range us {
				l = append(l, fmt.Sprintf("%s:%d amt=%d h=%d confs=%d sbu=%v", u.TxId[:10], u.Vout, u.Amount.IntValue(), u.BlockHeight, u.Confirmations, u.SpentByUnmined))
			}
		}
		sort.Strings(l)
		return strings.Join(l, "; ")
	case "tx":
		saddr, _ := massutil.NewAddressWitnessScriptHash(w.SHash, config.ChainParams)
		// ask for more than any single coin so that the selection shows what it held spendable
		amt, _ := massutil.NewAmountFromInt(14 * world.Mass)
		hexs, fee, err := w.I.W.AutoCreateRawTransaction(map[string]massutil.Amount{saddr.EncodeAddress(): amt}, 0, massutil.ZeroAmount(), "", "", nil)
		if err != nil {
			return "err: " + err.Error()
		}
		return fmt.Sprintf("fee=%d tx=%s", fee.IntValue(), hexs)
	}
	return "unknown query"
}

// build creates the world in the scenario's start state (tips queued, nothing running).
func build(sc Scn) (*world.World, *dbseam.DB, string, error) {
	seq++
	dir := filepath.Join(env.Scratch(), fmt.Sprintf("c17-%d", seq))
	var seam *dbseam.DB
	wrap := func(u mwdb.DB) mwdb.DB {
		seam = dbseam.Wrap(u, dbseam.NoPlan)
		return seam
	}
	w, err := world.New(dir, world.Options{Wrap: wrap, NoB: true})
	if err != nil {
		return nil, nil, dir, err
	}
	w.UseOracleChain()
	for _, ev := range sc.Setup {
		if ok, err := w.Apply(ev); err != nil || !ok {
			return nil, nil, dir, fmt.Errorf("setup %s: enabled=%v err=%v", ev, ok, err)
		}
	}
	for _, ev := range sc.Tips {
		if ok, err := w.Apply(ev); err != nil || !ok {
			return nil, nil, dir, fmt.Errorf("tip %s: enabled=%v err=%v", ev, ok, err)
		}
	}
	if len(w.HandlerErrs) > 0 {
		return nil, nil, dir, fmt.Errorf("setup handler errors: %v", w.HandlerErrs)
	}
	return w, seam, dir, nil
}

// twins computes, without any concurrency, the answer of every query at every block
// boundary: after 0, 1, ... all queued notifications were processed.
func twins(sc Scn) ([][]string, error) {
	var res [][]string
	for j := 0; ; j++ {
		w, _, dir, err := build(sc)
		if err != nil {
			return nil, err
		}
		n := len(w.N.Queue)
		if j > n {
			w.Close()
			os.RemoveAll(dir)
			break
		}
		for k := 0; k < j; k++ {
			if err := w.Deliver(); err != nil {
				return nil, err
			}
		}
		if len(w.HandlerErrs) > 0 {
			return nil, fmt.Errorf("twin %d handler errors: %v", j, w.HandlerErrs)
		}
		var a []string
		for _, q := range sc.Queries {
			a = append(a, query(w, q))
		}
		// queries are read-only with respect to the answers: asking twice gives the same
		for i, q := range sc.Queries {
			if q == "tx" {
				continue // a draft reserves its inputs for later drafts (C02): asked once only
			}
			if a2 := query(w, q); a2 != a[i] {
				return nil, fmt.Errorf("twin %d: query %s is not repeatable: %q then %q", j, q, a[i], a2)
			}
		}
		res = append(res, a)
		w.Close()
		os.RemoveAll(dir)
	}
	return res, nil
}

type window struct {
	first   bool
	lo, hi  int
	reads   int
	answer  string
	done    bool
	started bool
}

// runOnce runs one schedule.
func runOnce(sc Scn, tw [][]string, prefix []int, reads map[string]int, mixed *int) (*vshim.Result, *sched.Exec, error) {
	w, seam, dir, err := build(sc)
	defer os.RemoveAll(dir)
	if err != nil {
		return nil, nil, err
	}
	base := seam.Committed
	wins := map[string]*window{}
	for i := range sc.Queries {
		wins[fmt.Sprintf("Q%d", i)] = &window{first: true}
	}
	var startQueries func()
	seam.YieldRead = func(kind string) {
		name := vshim.ThreadName()
		if name == "H" {
			if kind == "Commit" {
				// H's run up to its first commit has no effect a query could see: the queries are
				// started here, so that only placements that differ for the queries are enumerated
				startQueries()
				vshim.Yield("commit")
			}
			return
		}
		win := wins[name]
		if win == nil || kind == "Commit" {
			return
		}
		vshim.Yield("read " + kind)
		win.hi = seam.Committed - base
		win.reads++
	}
	x := &sched.Exec{}
	spawned := false
	startQueries = func() {
		if spawned {
			return
		}
		spawned = true
		for i, q := range sc.Queries {
			name, q := fmt.Sprintf("Q%d", i), q
			vshim.Go(name, func() {
				// the window opens when the call starts (a read transaction may fix its view
				// of the store before its first read) and closes at its last database read
				wins[name].started = true
				wins[name].lo = seam.Committed - base
				wins[name].hi = wins[name].lo
				wins[name].answer = query(w, q)
				wins[name].done = true
			})
		}
	}
	r := vshim.Run(vshim.Options{Prefix: prefix, Horizon: 20000, FastLocks: true}, func() {
		vshim.Go("H", func() {
			for len(w.N.Queue) > 0 {
				if err := w.Deliver(); err != nil {
					panic(err)
				}
			}
		})
	})
	seam.YieldRead = nil
	if r.AllDone && len(r.Abnormal) == 0 && seam.Committed-base != len(tw)-1 {
		return nil, nil, fmt.Errorf("harness assumption broken: %d notifications were processed with %d commits (one commit per notification expected)", len(tw)-1, seam.Committed-base)
	}
	for _, a := range r.Abnormal {
		x.Viol = append(x.Viol, "thread ended abnormally: "+a)
	}
	if r.Deadlock || !r.AllDone {
		x.Viol = append(x.Viol, "deadlock: "+strings.Join(r.Blocked, "; "))
	}
	for _, e := range w.HandlerErrs {
		x.Viol = append(x.Viol, "block processing failed while a query was running: "+e)
	}
	var outc []string
	if len(x.Viol) == 0 {
		for i, q := range sc.Queries {
			win := wins[fmt.Sprintf("Q%d", i)]
			if win.reads > reads[q] {
				reads[q] = win.reads
			}
			ok := false
			var cand []string
			for j := win.lo; j <= win.hi && j < len(tw); j++ {
				cand = append(cand, fmt.Sprintf("boundary %d: %s", j, short(tw[j][i])))
				if tw[j][i] == win.answer {
					ok = true
				}
			}
			if win.lo != win.hi {
				*mixed++
			}
			if !ok {
				x.Viol = append(x.Viol, fmt.Sprintf("query %s (reads saw %d..%d of %d commits) answered %s, which is the answer at none of the block boundaries inside its window [%s]",
					q, win.lo, win.hi, len(tw)-1, short(win.answer), strings.Join(cand, " | ")))
				x.Known = append(x.Known, knownTag(q, win.answer, tw, i))
			}
			outc = append(outc, fmt.Sprintf("%s[%d..%d]=%s", q, win.lo, win.hi, digest(win.answer)))
		}
	}
	x.Outcome = strings.Join(outc, " ")
	w.Close()
	env.TakeFatals()
	return r, x, nil
}

// knownTag classifies a mixed answer (pattern tags for known_findings.json).
func knownTag(q, ans string, tw [][]string, qi int) string {
	switch q {
	case "wb":
		// total of one boundary combined with the detail of another
		var tot, rest string
		fmt.Sscanf(ans, "total=%s", &tot)
		if i := strings.Index(ans, " "); i > 0 {
			rest = ans[i:]
		}
		tm, rm := false, false
		for _, t := range tw {
			if strings.HasPrefix(t[qi], "total="+tot+" ") {
				tm = true
			}
			if strings.HasSuffix(t[qi], rest) {
				rm = true
			}
		}
		if tm && rm {
			return "walletbalance-total-and-detail-from-different-boundaries"
		}
	}
	return "mixed-answer-" + q
}

func short(s string) string {
	if len(s) > 300 {
		return s[:300] + "..."
	}
	return s
}

func digest(s string) string {
	if len(s) <= 60 {
		return s
	}
	h := uint64(1469598103934665603)
	for i := 0; i < len(s); i++ {
		h ^= uint64(s[i])
		h *= 1099511628211
	}
	return fmt.Sprintf("%s..#%x", s[:24], h)
}

// allowAscending is the partial-order reduction for several query threads (thread 0 is H,
// threads 1.. are the queries in spawn order). Steps of different queries are independent of
// each other (they only read the store; what a query answers depends on where the COMMITS
// fall among its own reads), so of all interleavings that place the commits identically
// relative to each query only one is explored: between two steps of H the queries run in
// ascending order. A switch to query b is therefore allowed only if no query with a larger id
// ran since H's last step, and once H has finished no alternative order is explored at all.
func allowAscending(r *vshim.Result, i int, alt int) bool {
	p := r.Points[i]
	b := p.Alts[alt].Thread
	if b == 0 {
		return true
	}
	hPresent := false
	for _, a := range p.Alts {
		if a.Thread == 0 {
			hPresent = true
		}
	}
	if !hPresent {
		return false
	}
	m := 0
	for j := i - 1; j >= 0; j-- {
		t := r.Points[j].Alts[r.Points[j].Chosen].Thread
		if t == 0 {
			break
		}
		if t > m {
			m = t
		}
	}
	return b >= m
}

// Job runs one shard of one scenario.
func Job(o Opts) (*Out, error) {
	sc := Scenarios[o.Scenario]
	tw, err := twins(sc)
	if err != nil {
		return nil, fmt.Errorf("twins of %s: %v", sc.Name, err)
	}
	tw2, err := twins(sc)
	if err != nil {
		return nil, err
	}
	if fmt.Sprint(tw) != fmt.Sprint(tw2) {
		return nil, fmt.Errorf("sequential twins of %s are not deterministic", sc.Name)
	}
	if o.Twins {
		return &Out{Scenario: sc.Name, Twins: tw}, nil
	}
	reads := map[string]int{}
	mixed := 0
	run := func(p []int) (*vshim.Result, *sched.Exec, error) { return runOnce(sc, tw, p, reads, &mixed) }
	if o.Replay != nil {
		r, x, err := run(o.Replay)
		if err != nil {
			return nil, err
		}
		st := &sched.Stats{Executions: 1, Outcomes: map[string]int{x.Outcome: 1}}
		out := &Out{Scenario: sc.Name, Stats: st, Twins: tw}
		if len(x.Viol) > 0 || r.ReplayError != "" {
			out.Violations = []sched.Violation{{Choices: r.Choices, Trace: r.Trace, Viol: append(x.Viol, r.ReplayError), Known: x.Known}}
		}
		return out, nil
	}
	e := &sched.Explorer{Run: run, Bound: 1 << 30, YieldOnly: true, Shard: o.Shard, NShards: o.NShards, MaxExec: o.MaxExec}
	if len(sc.Queries) > 1 {
		e.Allow = allowAscending
	}
	if o.Seconds > 0 {
		e.Deadline = time.Now().Add(time.Duration(o.Seconds) * time.Second)
	}
	if err := e.Explore(); err != nil {
		return nil, err
	}
	return &Out{Scenario: sc.Name, Stats: e.St, Violations: e.St.Violations, Twins: tw, Reads: reads, Mixed: mixed}, nil
}

var _ = json.Marshal
