//go:build vinstr

// Package c20 explores, with the controlled scheduler on the instrumented real code, all
// interleavings (up to a preemption bound) of the follower (handle), the background worker,
// a node thread announcing tips, an API thread starting an import or a removal, and the
// stop request (property C20).
package c20

import (
	"encoding/json"
	"fmt"
	"github.com/massnetorg/mass-core/wire"
	"os"
	"path/filepath"
	"sort"
	"strings"
	"time"

	"massnet.org/mass-wallet/masswallet"
	mwdb "massnet.org/mass-wallet/masswallet/db"
	"massnet.org/mass-wallet/masswallet/keystore"
	"massnet.org/mass-wallet/masswallet/vshim"
	"vh/dbseam"
	"vh/env"
	"vh/sched"
	"vh/world"
)

// Scenario description.
type Scn struct {
	Name   string `json:"name"`
	Task   string `json:"task"`   // "remove", "import", "none"
	Resume bool   `json:"resume"` // the task was accepted before a restart and is resumed at start-up
	Tips   int    `json:"tips"`   // tips the node announces concurrently
	Stop   bool   `json:"stop"`   // a stop request is issued concurrently
	// Batch > 0: one rescan batch of an import covers Batch heights (hook variable read by the
	// source overlay), so the import of this scenario takes several batches and is queued
	// again by the worker between them. Such scenarios carry "[batch]" in their name.
	Batch uint64 `json:"batch"`
	// Extra: more tasks the API thread submits after the first one (imports of two unfunded
	// wallets, then the removal of wallet B) - as many as the wallet accepts.
	Extra int `json:"extra"`
	// Fast: locks that can be taken at once are not scheduling points; preemptions happen at
	// channel operations, wait groups and blocking locks only ("[fast]" in the name). Used
	// with a higher preemption bound on the longer scenarios. "[deep]": thorough tier only.
	Fast bool `json:"fast"`
	// FailCommit > 0: the FailCommit-th wallet-database commit of the explored part reports a
	// storage error (once): the real worker() / handle() decide what happens next. At
	// quiescence everything announced and accepted must still have been done.
	FailCommit int `json:"fail_commit"`
	// APIWrite: after submitting its task(s) the API thread makes two more WRITE calls
	// (UseWallet, NewAddress on wallet A) - they take the wallet lock and a write transaction
	// while the worker is busy with the task
	APIWrite bool `json:"api_write"`
}

// Scenarios is the scenario list (histories x stop placement).
var Scenarios = []Scn{
	{"remove+2tips+stop", "remove", false, 2, true, 0, 0, false, 0, false},
	{"remove+stop", "remove", false, 0, true, 0, 0, false, 0, false},
	{"import+2tips+stop", "import", false, 2, true, 0, 0, false, 0, false},
	{"import+stop", "import", false, 0, true, 0, 0, false, 0, false},
	{"resume-remove+stop", "remove", true, 0, true, 0, 0, false, 0, false},
	{"resume-import+1tip+stop", "import", true, 1, true, 0, 0, false, 0, false},
	{"2tips+stop", "none", false, 2, true, 0, 0, false, 0, false},
	{"remove+2tips", "remove", false, 2, false, 0, 0, false, 0, false},
	{"import+2tips", "import", false, 2, false, 0, 0, false, 0, false},
	{"resume-remove+1tip", "remove", true, 1, false, 0, 0, false, 0, false},
	{"resume-import+1tip", "import", true, 1, false, 0, 0, false, 0, false},
	// multi-batch imports (stop between two steps of an import; queue pressure while a task
	// that is queued again after every batch is running)
	{"import3+stop [batch]", "import", false, 0, true, 1, 0, false, 0, false},
	{"import3+1tip [batch]", "import", false, 1, false, 1, 0, false, 0, false},
	{"import3+1tip+stop [batch][fast][deep]", "import", false, 1, true, 1, 0, true, 0, false},
	{"import3+3tasks [batch][fast]", "import", false, 0, false, 1, 3, true, 0, false},
	{"import3+3tasks+stop [batch][fast][deep]", "import", false, 0, true, 1, 3, true, 0, false},
	{"resume-import3+1tip+stop [batch][fast][deep]", "import", true, 1, true, 1, 0, true, 0, false},
	// a storage error reported to the worker / the follower in the middle of their work: the
	// worker's and the follower's own retry logic runs (no stop request: liveness oracle)
	{"import3+fault@2 [batch]", "import", false, 0, false, 1, 0, false, 2, false},
	{"import3+fault@3 [batch]", "import", false, 0, false, 1, 0, false, 3, false},
	{"import+1tip+fault@2", "import", false, 1, false, 0, 0, false, 2, false},
	{"remove+fault@2", "remove", false, 0, false, 0, 0, false, 2, false},
	{"remove+fault@3", "remove", false, 0, false, 0, 0, false, 3, false},
	{"remove+1tip+fault@4", "remove", false, 1, false, 0, 0, false, 4, false},
	{"2tips+fault@1", "none", false, 2, false, 0, 0, false, 1, false},
	// API write calls racing with the worker's task (lock order between the wallet lock and
	// the database write lock)
	{"remove+api-write", "remove", false, 0, false, 0, 0, false, 0, true},
	{"remove+api-write+stop", "remove", false, 0, true, 0, 0, false, 0, true},
	{"import+api-write+1tip", "import", false, 1, false, 0, 0, false, 0, true},
}

type Opts struct {
	Scenario int   `json:"scenario"`
	Bound    int   `json:"bound"`
	Shard    int   `json:"shard"`
	NShards  int   `json:"nshards"`
	MaxExec  int   `json:"max_exec"`
	Seconds  int   `json:"seconds"`
	Replay   []int `json:"replay"`
	List     bool  `json:"list"`
}

type Out struct {
	Scenario   string            `json:"scenario"`
	Bound      int               `json:"bound"`
	Stats      *sched.Stats      `json:"stats"`
	Violations []sched.Violation `json:"violations"`
}

var seq int

// bases holds, per scenario, the world frozen at the point where the explored part starts
// (built once per worker process; every execution runs on a fork, see world.Base).
var bases = map[string]*world.Base{}

// lateTips holds, per fault scenario, one more block that is already in the chain database but
// is announced only after the explored part went quiet: a block whose processing reported a
// storage error is caught up when the NEXT tip arrives (C18), so the liveness oracle of a
// fault scenario is evaluated after one more announcement.
var lateTips = map[string]*wire.MsgBlock{}

func baseFor(sc Scn, dir string) (*world.Base, error) {
	if b := bases[sc.Name]; b != nil {
		return b, nil
	}
	w, err := world.New(dir+"-base", world.Options{Gap: 3}) // gap limit 3: an import derives 3+3 addresses instead of 20+20
	if err != nil {
		return nil, err
	}
	w.UseOracleChain()
	// history before the explored part (direct calls, scheduler inactive)
	setup := []string{"x.ab", "d", "x.pc0", "d", "x.a2b", "d"}
	for _, ev := range setup {
		if ok, err := w.Apply(ev); err != nil || !ok {
			return nil, fmt.Errorf("setup %s: %v %v", ev, ok, err)
		}
	}
	if sc.Resume {
		// the task was accepted (and persisted) by the previous process: every fork is the restart
		w.I.W.VerifInitTaskChan()
		switch sc.Task {
		case "remove":
			if err := w.RemoveB(world.PassB); err != nil {
				return nil, err
			}
		case "import":
			if err := w.ImportC(0); err != nil {
				return nil, err
			}
		}
	}
	for i := 0; i < sc.Tips; i++ {
		t := "x.e"
		if i == 1 {
			t = "x.pa"
		}
		if i == 0 && sc.Task == "import" {
			// the first announced tip pays the wallet that is being imported: a block the
			// follower connects while the rescan runs must end up in the restored wallet's ledger
			t = "x.pc1"
		}
		if ok, err := w.Apply(t); err != nil || !ok {
			return nil, fmt.Errorf("tip %d: %v %v", i, ok, err)
		}
	}
	if sc.FailCommit > 0 {
		if ok, err := w.Apply("x.e"); err != nil || !ok {
			return nil, fmt.Errorf("late tip: %v %v", ok, err)
		}
		q := w.N.Queue
		lateTips[sc.Name] = q[len(q)-1].Block
		w.N.Queue = q[:len(q)-1]
	}
	b, err := w.Freeze()
	if err != nil {
		return nil, err
	}
	bases[sc.Name] = b
	return b, nil
}

// unfunded wallets imported to put pressure on the task queue (valid BIP-39 sentences)
var extraMnemonics = []string{
	"legal winner thank year wave sausage worth useful legal winner thank yellow",
	"letter advice cage absurd amount doctor acoustic avoid letter advice cage above",
}

// runOnce builds a fresh world, runs the scenario under the prefix and evaluates the oracle.
func runOnce(sc Scn, prefix []int) (*vshim.Result, *sched.Exec, error) {
	seq++
	dir := filepath.Join(env.Scratch(), fmt.Sprintf("c20-%d", seq))
	defer os.RemoveAll(dir)
	var seam *dbseam.DB
	wrap := func(u mwdb.DB) mwdb.DB {
		seam = dbseam.Wrap(u, dbseam.NoPlan)
		return seam
	}
	b, err := baseFor(sc, dir)
	if err != nil {
		return nil, nil, err
	}
	masswallet.VerifImportBatch = 1000
	if sc.Batch > 0 {
		masswallet.VerifImportBatch = sc.Batch
	}
	defer func() { masswallet.VerifImportBatch = 1000 }()
	w, err := b.Fork(wrap)
	if err != nil {
		return nil, nil, err
	}
	closesBefore := 0
	if seam != nil {
		closesBefore = seam.Closes
		if sc.FailCommit > 0 {
			// counted from here: the commits of opening the database are not part of the scenario
			seam.Plan.FailCommit = seam.Commits + sc.FailCommit
		}
	}
	x := &sched.Exec{}
	var apiErr, startErr error
	var extraErrs []string
	stopReturned := false
	idleOK := func(name, pend string) bool {
		// handle and worker legitimately wait for ever in their top-level select
		return !sc.Stop && ((name == "handle" && strings.HasPrefix(pend, "select(select[h.quit,h.sigSuspend,h.queueBlock,h.queueMsgTx]")) ||
			(name == "worker" && strings.HasPrefix(pend, "select(select[h.quit,h.taskChan.C]")))
	}
	r := vshim.Run(vshim.Options{Prefix: prefix, Horizon: 4000, IdleOK: idleOK, FastLocks: sc.Fast}, func() {
		vshim.Go("main", func() {
			startErr = w.I.W.VerifHandlerStart()
			if startErr != nil {
				return
			}
			if sc.Tips > 0 {
				vshim.Go("node", func() {
					for len(w.N.Queue) > 0 {
						nt, _ := w.N.Pop()
						if nt.Block != nil {
							w.I.W.VerifOnBlockConnected(nt.Block)
						}
					}
				})
			}
			if !sc.Resume && sc.Task != "none" {
				vshim.Go("api", func() {
					if sc.Task == "remove" {
						apiErr = w.I.W.RemoveWallet(w.Wallets["B"].ID, world.PassB)
					} else {
						apiErr = w.ImportC(0)
					}
					for k := 0; k < sc.Extra; k++ {
						var err error
						if k < len(extraMnemonics) {
							_, err = w.I.W.ImportWalletWithMnemonic(&keystore.WalletParams{Mnemonic: extraMnemonics[k],
								PrivatePassphrase: []byte("privpassX7"), Remarks: "X", AddressGapLimit: w.Opt.Gap})
						} else {
							err = w.I.W.RemoveWallet(w.Wallets["B"].ID, world.PassB)
						}
						extraErrs = append(extraErrs, fmt.Sprint(err))
					}
					if sc.APIWrite {
						_, e1 := w.I.W.UseWallet(w.Wallets["A"].ID)
						_, e2 := w.NewAddress("A") // the world registers the address it returns
						extraErrs = append(extraErrs, fmt.Sprint(e1), fmt.Sprint(e2))
					}
				})
			}
			if sc.Stop {
				vshim.Go("stop", func() {
					w.I.W.VerifHandlerStop()
					stopReturned = true
				})
			}
		})
	})
	if startErr != nil {
		return nil, nil, fmt.Errorf("start: %v", startErr)
	}
	apiAfterClose := false
	var abnormal []string
	for _, a := range r.Abnormal {
		if strings.HasPrefix(a, "api: ") && seam != nil && seam.Closes > closesBefore {
			// The API call ran on after the stop sequence had closed the wallet database. The
			// loader stops the API server BEFORE the wallet manager (loader.UnloadWallet), so
			// this placement is outside what C20 states; it is counted, not reported.
			apiAfterClose = true
			continue
		}
		abnormal = append(abnormal, a)
		x.Viol = append(x.Viol, "thread ended abnormally: "+a)
	}
	r.Abnormal = abnormal
	if r.Deadlock {
		x.Viol = append(x.Viol, "deadlock: "+strings.Join(r.Blocked, "; "))
	}
	out := map[string]interface{}{"blocked": r.Blocked, "api_after_close": apiAfterClose}
	if sc.Stop {
		if !r.Deadlock && len(r.Abnormal) == 0 {
			if !stopReturned || !r.AllDone {
				x.Viol = append(x.Viol, fmt.Sprintf("stop did not complete: returned=%v, parked: %v", stopReturned, r.Blocked))
			}
			if seam != nil && seam.Closes-closesBefore != 1 {
				x.Viol = append(x.Viol, fmt.Sprintf("wallet database closed %d times by the stop sequence", seam.Closes-closesBefore))
			}
		}
		out["api_err"] = fmt.Sprint(apiErr)
	} else if !r.Deadlock && len(r.Abnormal) == 0 && !r.HorizonHit {
		if late := lateTips[sc.Name]; late != nil {
			// fault scenario: the node announces one more tip (default schedule), then the oracle
			vshim.Continue(func() { vshim.Go("late-node", func() { w.I.W.VerifOnBlockConnected(late) }) })
			out["injected"] = seam.Injected
		}
		// liveness at quiescence: everything announced was processed, every accepted task finished
		qb, qt, tk := w.I.W.VerifQueueLens()
		if qb != 0 || qt != 0 || tk > 0 {
			x.Viol = append(x.Viol, fmt.Sprintf("quiescent but work is left: %d tips, %d txs, %d tasks queued", qb, qt, tk))
		}
		if apiErr == nil {
			switch sc.Task {
			case "remove":
				if st := w.TaskStatus("B"); st != "absent" {
					x.Viol = append(x.Viol, "quiescent but the accepted removal did not finish: status "+st)
				}
			case "import":
				if w.Wallets["C"] == nil {
					x.Viol = append(x.Viol, "import accepted but the wallet is unknown")
				} else if st := w.TaskStatus("C"); st != "ready" {
					x.Viol = append(x.Viol, "quiescent but the accepted import did not finish: status "+st)
				}
			}
		}
		// every accepted task finished: no wallet is left importing or marked for removal
		if wss, err := w.I.W.Wallets(); err != nil {
			x.Viol = append(x.Viol, "quiescent but Wallets() fails: "+err.Error())
		} else {
			for _, ws := range wss {
				if ws.Status.IsRemoved() {
					x.Viol = append(x.Viol, "quiescent but an accepted removal did not finish: a wallet is still marked for removal")
				} else if !ws.Status.Ready() {
					x.Viol = append(x.Viol, fmt.Sprintf("quiescent but an accepted import did not finish: a wallet (%q) is still importing at height %d", ws.Remarks, ws.Status.SyncedHeight))
				}
			}
		}
		out["extra_errs"] = extraErrs
		if len(x.Viol) == 0 {
			if d, _ := w.CheckLedger(); len(d) > 0 {
				for _, s := range d {
					x.Viol = append(x.Viol, "ledger at quiescence: "+s)
				}
			}
		}
		out["api_err"] = fmt.Sprint(apiErr)
		out["status_B"] = w.TaskStatus("B")
		out["status_C"] = w.TaskStatus("C")
		// shut the parked follower/worker down (not part of the explored space)
		vshim.Continue(func() { vshim.Go("cleanup-stop", func() { w.I.W.VerifHandlerStop() }) })
		w.I.Raw = nil
	}
	if sc.Stop && stopReturned {
		w.I.Raw = nil // closed by the stop sequence
	}
	sort.Strings(r.Blocked)
	ob, _ := json.Marshal(out)
	x.Outcome = string(ob)
	w.Close()
	env.TakeFatals()
	return r, x, nil
}

// Job runs one shard of one scenario's exploration.
func Job(o Opts) (*Out, error) {
	sc := Scenarios[o.Scenario]
	if o.Replay != nil {
		r, x, err := runOnce(sc, o.Replay)
		if err != nil {
			return nil, err
		}
		st := &sched.Stats{Executions: 1, Outcomes: map[string]int{x.Outcome: 1}}
		out := &Out{Scenario: sc.Name, Stats: st}
		if len(x.Viol) > 0 || r.ReplayError != "" {
			out.Violations = []sched.Violation{{Choices: r.Choices, Trace: r.Trace, Viol: append(x.Viol, r.ReplayError)}}
		}
		return out, nil
	}
	e := &sched.Explorer{Run: func(p []int) (*vshim.Result, *sched.Exec, error) { return runOnce(sc, p) },
		Bound: o.Bound, Shard: o.Shard, NShards: o.NShards, MaxExec: o.MaxExec}
	if o.Seconds > 0 {
		e.Deadline = time.Now().Add(time.Duration(o.Seconds) * time.Second)
	}
	if err := e.Explore(); err != nil {
		return nil, err
	}
	return &Out{Scenario: sc.Name, Bound: o.Bound, Stats: e.St, Violations: e.St.Violations}, nil
}
