// Package simnode is the closed environment of the wallet: a real mass-core chain
// database driven with synthetic blocks through the same calls the node uses, a
// notification queue, and a masswallet.Server built from real node objects.
package simnode

import (
	"crypto/sha256"
	"encoding/binary"
	"fmt"
	"math"
	"os"
	"path/filepath"
	"time"

	"github.com/massnetorg/mass-core/blockchain"
	"github.com/massnetorg/mass-core/database"
	cldb "github.com/massnetorg/mass-core/database/ldb"
	"github.com/massnetorg/mass-core/massutil"
	"github.com/massnetorg/mass-core/netsync"
	"github.com/massnetorg/mass-core/txscript"
	"github.com/massnetorg/mass-core/wire"
	"massnet.org/mass-wallet/config"
)

// Block is one synthetic block known to the simulator (on any branch).
type Block struct {
	Msg    *wire.MsgBlock
	Hash   wire.Hash
	Height uint64
	Parent *Block
}

// Notif is one queued notification: a connected tip or a relayed transaction.
type Notif struct {
	Block *wire.MsgBlock
	Tx    *wire.MsgTx
}

// Node is the simulator.
type Node struct {
	Dir   string
	DB    database.Db
	Best  []*Block // Best[h] is the best-chain block at height h
	All   map[wire.Hash]*Block
	Txs   map[wire.Hash]*wire.MsgTx // every transaction ever mined or relayed
	Queue []Notif
	Nonce uint64

	bc      *blockchain.Blockchain
	bcTip   wire.Hash
	fixedBC *blockchain.Blockchain
	bcN     int
	sm      *netsync.SyncManager
	pool    *blockchain.TxPool
	closed  bool
}

var zeroHash wire.Hash

// New creates a node with only the genesis block, under dir.
func New(dir string) (*Node, error) {
	if err := os.MkdirAll(dir, 0o755); err != nil {
		return nil, err
	}
	stor, err := newMemStorage()
	if err != nil {
		return nil, err
	}
	db, err := cldb.NewChainDb(filepath.Join(dir, "chain.db"), stor)
	if err != nil {
		return nil, err
	}
	g := massutil.NewBlock(config.ChainParams.GenesisBlock)
	if err := db.InitByGenesisBlock(g); err != nil {
		return nil, err
	}
	gb := &Block{Msg: config.ChainParams.GenesisBlock, Hash: *g.Hash(), Height: 0}
	n := &Node{Dir: dir, DB: db, All: map[wire.Hash]*Block{gb.Hash: gb}, Txs: map[wire.Hash]*wire.MsgTx{}}
	n.Best = []*Block{gb}
	for _, tx := range gb.Msg.Transactions {
		n.Txs[tx.TxHash()] = tx
	}
	n.pool = blockchain.NewTxPool(nil, nil, nil)
	return n, nil
}

// Close releases the chain database.
func (n *Node) Close() {
	if n.closed {
		return
	}
	n.closed = true
	n.DB.Close()
}

// Tip is the best block.
func (n *Node) Tip() *Block { return n.Best[len(n.Best)-1] }

// Height is the best height.
func (n *Node) Height() uint64 { return n.Tip().Height }

// CoinbaseTx builds a coinbase paying value to pkScript; the payload makes it unique.
func (n *Node) CoinbaseTx(height uint64, pkScript []byte, value int64) *wire.MsgTx {
	n.Nonce++
	tx := wire.NewMsgTx()
	tx.Version = wire.TxVersion
	in := wire.NewTxIn(wire.NewOutPoint(&zeroHash, math.MaxUint32), nil)
	in.Sequence = wire.MaxTxInSequenceNum
	tx.AddTxIn(in)
	tx.AddTxOut(&wire.TxOut{Value: value, PkScript: pkScript})
	p := make([]byte, 16)
	binary.LittleEndian.PutUint64(p, height)
	binary.LittleEndian.PutUint64(p[8:], n.Nonce)
	tx.Payload = p
	return tx
}

// MakeBlock builds (but does not connect) a block on parent with the given transactions
// (txs[0] must be a coinbase).
func (n *Node) MakeBlock(parent *Block, txs []*wire.MsgTx) *Block {
	g := config.ChainParams.GenesisBlock
	hdr := g.Header // struct copy; PoC fields are opaque to the wallet
	hdr.Height = parent.Height + 1
	hdr.Previous = parent.Hash
	hdr.Timestamp = g.Header.Timestamp.Add(time.Duration(hdr.Height) * time.Minute)
	msg := &wire.MsgBlock{Header: hdr, Proposals: g.Proposals}
	for _, tx := range txs {
		msg.AddTransaction(tx)
	}
	mt := wire.BuildMerkleTreeStoreTransactions(msg.Transactions, false)
	msg.Header.TransactionRoot = *mt[len(mt)-1]
	wt := wire.BuildMerkleTreeStoreTransactions(msg.Transactions, true)
	msg.Header.WitnessRoot = *wt[len(wt)-1]
	b := &Block{Msg: msg, Hash: msg.BlockHash(), Height: hdr.Height, Parent: parent}
	return b
}

func scriptHolder(pk []byte) []byte {
	class, pops := txscript.GetScriptInfo(pk)
	switch class {
	case txscript.WitnessV0ScriptHashTy, txscript.StakingScriptHashTy:
		_, rsh, err := txscript.GetParsedOpcode(pops, class)
		if err != nil {
			return nil
		}
		return rsh[:]
	case txscript.BindingScriptHashTy:
		h, _, err := txscript.GetParsedBindingOpcode(pops)
		if err != nil {
			return nil
		}
		return h
	}
	return nil
}

// addrIndex computes what blockchain.AddrIndexer would submit for the data the wallet
// reads: script hash -> locations of transactions paying or spending it.
func (n *Node) addrIndex(b *Block) (*database.AddrIndexData, error) {
	blk := massutil.NewBlock(b.Msg)
	locs, err := blk.TxLoc()
	if err != nil {
		return nil, err
	}
	type key struct {
		sh  [sha256.Size]byte
		idx int
	}
	seen := map[key]bool{}
	data := &database.AddrIndexData{
		TxIndex:             database.TxAddrIndex{},
		BindingTxIndex:      database.BindingTxAddrIndex{},
		BindingTxSpentIndex: database.BindingTxSpentAddrIndex{},
	}
	add := func(pk []byte, i int) {
		h := scriptHolder(pk)
		if len(h) != sha256.Size {
			return
		}
		var k key
		copy(k.sh[:], h)
		k.idx = i
		if seen[k] {
			return
		}
		seen[k] = true
		data.TxIndex[k.sh] = append(data.TxIndex[k.sh], &wire.TxLoc{TxStart: locs[i].TxStart, TxLen: locs[i].TxLen})
	}
	// like blockchain.AddrIndexer, an input's previous transaction is looked up among the
	// EARLIER transactions of this block as well (in-block spend chains)
	inBlock := map[wire.Hash]*wire.MsgTx{}
	for i, tx := range b.Msg.Transactions {
		inBlock[tx.TxHash()] = tx
		if !blockchain.IsCoinBaseTx(tx) {
			for _, in := range tx.TxIn {
				prev := n.Txs[in.PreviousOutPoint.Hash]
				if prev == nil {
					prev = inBlock[in.PreviousOutPoint.Hash]
				}
				if prev == nil || int(in.PreviousOutPoint.Index) >= len(prev.TxOut) {
					continue // deliberately malformed sim transactions (C19) are not indexed
				}
				add(prev.TxOut[in.PreviousOutPoint.Index].PkScript, i)
			}
		}
		for _, out := range tx.TxOut {
			add(out.PkScript, i)
		}
	}
	return data, nil
}

func (n *Node) connect(b *Block) error {
	blk := massutil.NewBlock(b.Msg)
	if err := n.DB.SubmitBlock(blk); err != nil {
		return fmt.Errorf("SubmitBlock h=%d: %v", b.Height, err)
	}
	idx, err := n.addrIndex(b)
	if err != nil {
		return err
	}
	if err := n.DB.SubmitAddrIndex(&b.Hash, b.Height, idx); err != nil {
		return fmt.Errorf("SubmitAddrIndex: %v", err)
	}
	if err := n.DB.Commit(b.Hash); err != nil {
		return fmt.Errorf("Commit: %v", err)
	}
	n.All[b.Hash] = b
	for _, tx := range b.Msg.Transactions {
		n.Txs[tx.TxHash()] = tx
	}
	n.Best = append(n.Best, b)
	return nil
}

func (n *Node) disconnectTip() error {
	t := n.Tip()
	if t.Height == 0 {
		return fmt.Errorf("cannot disconnect genesis")
	}
	if err := n.DB.DeleteBlock(&t.Hash); err != nil {
		return fmt.Errorf("DeleteBlock: %v", err)
	}
	if err := n.DB.DeleteAddrIndex(&t.Hash, t.Height); err != nil {
		return fmt.Errorf("DeleteAddrIndex: %v", err)
	}
	if err := n.DB.Commit(t.Hash); err != nil {
		return fmt.Errorf("Commit: %v", err)
	}
	n.Best = n.Best[:len(n.Best)-1]
	return nil
}

// Extend connects one block on the tip and queues its notification
// (blockchain.connectBlock + notifyBlockConnected).
func (n *Node) Extend(txs []*wire.MsgTx) (*Block, error) {
	b := n.MakeBlock(n.Tip(), txs)
	if err := n.connect(b); err != nil {
		return nil, err
	}
	n.Queue = append(n.Queue, Notif{Block: b.Msg})
	return b, nil
}

// Reorg disconnects the top k blocks (newest first), connects the blocks produced by
// gen (called once per new block with the current tip), and queues ONE notification
// for the final tip, as blockchain.connectBestChain does.
func (n *Node) Reorg(k int, gens []func(parent *Block) []*wire.MsgTx) (*Block, error) {
	for i := 0; i < k; i++ {
		if err := n.disconnectTip(); err != nil {
			return nil, err
		}
	}
	var last *Block
	for _, g := range gens {
		b := n.MakeBlock(n.Tip(), g(n.Tip()))
		if err := n.connect(b); err != nil {
			return nil, err
		}
		last = b
	}
	if last != nil {
		n.Queue = append(n.Queue, Notif{Block: last.Msg})
	}
	return last, nil
}

// Relay queues an unconfirmed transaction notification.
func (n *Node) Relay(tx *wire.MsgTx) {
	n.Txs[tx.TxHash()] = tx
	n.Queue = append(n.Queue, Notif{Tx: tx})
}

// Pop removes and returns the oldest queued notification.
func (n *Node) Pop() (Notif, bool) {
	if len(n.Queue) == 0 {
		return Notif{}, false
	}
	x := n.Queue[0]
	n.Queue = n.Queue[1:]
	return x, true
}

// SelfCheck compares the simulator's view of the best chain with the real database.
func (n *Node) SelfCheck() error {
	sha, h, err := n.DB.NewestSha()
	if err != nil {
		return err
	}
	if h != n.Height() || *sha != n.Tip().Hash {
		return fmt.Errorf("sim tip %d/%v != db tip %d/%v", n.Height(), n.Tip().Hash, h, sha)
	}
	seen := map[wire.Hash]bool{}
	for i, b := range n.Best {
		if uint64(i) != b.Height {
			return fmt.Errorf("best[%d] has height %d", i, b.Height)
		}
		s, err := n.DB.FetchBlockShaByHeight(uint64(i))
		if err != nil || *s != b.Hash {
			return fmt.Errorf("height %d: db %v sim %v err %v", i, s, b.Hash, err)
		}
		if i > 0 && b.Msg.Header.Previous != n.Best[i-1].Hash {
			return fmt.Errorf("best chain not linked at %d", i)
		}
	}
	for h := range n.All {
		if seen[h] {
			return fmt.Errorf("duplicate block hash %v", h)
		}
		seen[h] = true
	}
	return nil
}

// ---- masswallet.Server ----

// Server adapts a Node to masswallet.Server.
type Server struct{ N *Node }

func (s *Server) ChainDB() database.Db          { return s.N.DB }
func (s *Server) TxMemPool() *blockchain.TxPool { return s.N.pool }

// Blockchain returns a real blockchain.Blockchain whose block tree reflects the chain
// database at the current tip; it is rebuilt when the tip changed.
func (s *Server) Blockchain() *blockchain.Blockchain {
	n := s.N
	if n.fixedBC != nil {
		return n.fixedBC
	}
	if n.bc != nil && n.bcTip == n.Tip().Hash {
		return n.bc
	}
	n.bcN++
	bc, err := blockchain.NewBlockchain(&blockchain.Config{
		DB:          n.DB,
		ChainParams: config.ChainParams,
		CachePath:   filepath.Join(n.Dir, fmt.Sprintf("bcache%d", n.bcN)),
	})
	if err != nil {
		panic(fmt.Sprintf("HARNESS-ERROR NewBlockchain: %v", err))
	}
	n.bc, n.bcTip = bc, n.Tip().Hash
	return bc
}

// sharedSM is one process-wide vault-mode sync manager (no sockets, no peers, so
// BestPeer() == nil for every wallet instance); building one per node would only leak.
var sharedSM *netsync.SyncManager

func (s *Server) SyncManager() *netsync.SyncManager {
	if sharedSM == nil {
		n := s.N
		cc := config.NewDefCoreConfig()
		cfg := *cc
		cfg.P2P.VaultMode = true
		cfg.Datastore.Dir = filepath.Join(filepath.Dir(n.Dir), "shared-p2p")
		if err := os.MkdirAll(cfg.Datastore.Dir, 0o755); err != nil {
			panic(fmt.Sprintf("HARNESS-ERROR p2p dir: %v", err))
		}
		bc := s.Blockchain()
		sm, err := netsync.NewSyncManager(&cfg, bc, bc.GetTxPool(), make(chan *wire.Hash, 16))
		if err != nil {
			panic(fmt.Sprintf("HARNESS-ERROR NewSyncManager: %v", err))
		}
		sharedSM = sm
	}
	return sharedSM
}

// FixBlockchain makes Server.Blockchain() return bc for this node instead of building a
// consensus object over the node's own database (each one leaks ~3 MB and a goroutine).
// Only for scenarios in which the wallet uses it for listener registration and start-up
// logging (its BestBlockHeight is NOT this node's height).
func (n *Node) FixBlockchain(bc *blockchain.Blockchain) { n.fixedBC = bc }
