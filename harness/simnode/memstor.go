// Copy of mass-core database/memdb storage adapter (its constructor is unexported):
// a storage.Storage over goleveldb MemStorage, so each simulator owns a private chain DB.
package simnode

import (
	dbstorage "github.com/massnetorg/mass-core/database/storage"
	"github.com/syndtr/goleveldb/leveldb"
	"github.com/syndtr/goleveldb/leveldb/iterator"
	"github.com/syndtr/goleveldb/leveldb/opt"
	"github.com/syndtr/goleveldb/leveldb/storage"
	"github.com/syndtr/goleveldb/leveldb/util"
)

type memLevelDB struct {
	db *leveldb.DB
}

type levelBatch struct {
	b *leveldb.Batch
}

type levelIterator struct {
	iter  iterator.Iterator
	slice *dbstorage.Range
}

func newMemStorage() (store dbstorage.Storage, err error) {
	mdb, err := leveldb.Open(storage.NewMemStorage(), &opt.Options{})
	if err != nil {
		return nil, err
	}
	return &memLevelDB{db: mdb}, nil
}

func (l *memLevelDB) Close() error {
	return l.db.Close()
}

func (l *memLevelDB) Get(key []byte) ([]byte, error) {
	value, err := l.db.Get(key, nil)
	if err != nil {
		if err == leveldb.ErrNotFound {
			return nil, dbstorage.ErrNotFound
		}
		return nil, err
	}
	return value, nil
}

func (l *memLevelDB) Put(key, value []byte) error {
	if len(key) == 0 {
		return dbstorage.ErrInvalidKey
	}
	return l.db.Put(key, value, nil)
}

func (l *memLevelDB) Has(key []byte) (bool, error) {
	_, err := l.Get(key)
	if err != nil {
		if err == dbstorage.ErrNotFound {
			return false, nil
		}
		return false, err
	}
	return true, nil
}

func (l *memLevelDB) Delete(key []byte) error {
	return l.db.Delete(key, nil)
}

func (l *memLevelDB) NewBatch() dbstorage.Batch {
	return &levelBatch{
		b: new(leveldb.Batch),
	}
}

func (l *memLevelDB) Write(batch dbstorage.Batch) error {
	lb, ok := batch.(*levelBatch)
	if !ok {
		return dbstorage.ErrInvalidBatch
	}
	return l.db.Write(lb.b, nil)
}

func (l *memLevelDB) NewIterator(slice *dbstorage.Range) dbstorage.Iterator {
	if slice == nil {
		slice = &dbstorage.Range{}
	} else {
		if len(slice.Start) == 0 {
			slice.Start = nil
		}
		if len(slice.Limit) == 0 {
			slice.Limit = nil
		}
	}
	return &levelIterator{
		slice: slice,
		iter: l.db.NewIterator(&util.Range{
			Start: slice.Start,
			Limit: slice.Limit,
		}, nil),
	}
}

// -------------levelBatch-------------

func (b *levelBatch) Put(key, value []byte) error {
	if len(key) == 0 {
		return dbstorage.ErrInvalidKey
	}
	b.b.Put(key, value)
	return nil
}

func (b *levelBatch) Delete(key []byte) error {
	if len(key) == 0 {
		return dbstorage.ErrInvalidKey
	}
	b.b.Delete(key)
	return nil
}

func (b *levelBatch) Reset() {
	b.b.Reset()
}

func (b *levelBatch) Release() {
	b.b = nil
}

// -----------------levelIterator-----------------

func (it *levelIterator) Seek(key []byte) bool {
	return it.iter.Seek(key)
}

func (it *levelIterator) Next() bool {
	return it.iter.Next()
}

func (it *levelIterator) Key() []byte {
	return it.iter.Key()
}

func (it *levelIterator) Value() []byte {
	return it.iter.Value()
}

func (it *levelIterator) Release() {
	it.iter.Release()
}

func (it *levelIterator) Error() error {
	return it.iter.Error()
}
