// Package inst builds wallet instances the way loader.go does, over a simnode.
package inst

import (
	"fmt"
	"os"
	"path/filepath"

	"github.com/syndtr/goleveldb/leveldb/storage"
	"massnet.org/mass-wallet/config"
	"massnet.org/mass-wallet/masswallet"
	mwdb "massnet.org/mass-wallet/masswallet/db"
	"massnet.org/mass-wallet/masswallet/db/ldb"
	"vh/simnode"
)

// Store is a wallet database location: either a directory (the real CreateDB/OpenDB path,
// 128 MiB write buffer) or an in-memory goleveldb storage that survives Close and can be
// reopened, which is what makes thousands of fresh instances per minute affordable.
type Store struct {
	Dir string
	Mem storage.Storage
}

// NewMemStore returns a fresh in-memory store.
func NewMemStore() *Store { return &Store{Mem: storage.NewMemStorage()} }

// OpenStore opens (or creates) the wallet database of a store.
func OpenStore(st *Store) (mwdb.DB, error) {
	if st.Mem != nil {
		return ldb.VerifOpenStorage(st.Mem, 4<<20)
	}
	dbdir := filepath.Join(st.Dir, "wallet.db")
	if _, serr := os.Stat(dbdir); serr == nil {
		return mwdb.OpenDB("leveldb", dbdir)
	}
	os.MkdirAll(st.Dir, 0o755)
	return mwdb.CreateDB("leveldb", dbdir)
}

// PubPass is the public passphrase used by every instance unless a scenario changes it.
const PubPass = "publicpassVerif1"

// Inst is one wallet manager over one wallet database directory.
type Inst struct {
	Dir   string
	Store *Store
	Raw   mwdb.DB // the real ldb.LevelDB
	DB    mwdb.DB // what the wallet sees (Raw or a seam around it)
	W     *masswallet.WalletManager
	Srv   *simnode.Server
	Cfg   *config.Config
	Wrap  func(mwdb.DB) mwdb.DB
}

// Config returns a wallet configuration with the given gap limit.
func Config(gap uint32) *config.Config {
	cfg := &config.Config{Core: config.NewDefCoreConfig(), Wallet: config.NewDefWalletConfig()}
	cfg.Wallet.Settings.AddressGapLimit = gap
	return cfg
}

// Open creates (or reopens) the wallet database under dir and builds a WalletManager
// exactly as loader.openWallet/createWallet do. wrap may interpose a db seam.
func Open(dir string, n *simnode.Node, gap uint32, pubpass string, wrap func(mwdb.DB) mwdb.DB) (*Inst, error) {
	return OpenAt(&Store{Dir: dir}, n, gap, pubpass, wrap)
}

// OpenAt is Open over an explicit store.
func OpenAt(st *Store, n *simnode.Node, gap uint32, pubpass string, wrap func(mwdb.DB) mwdb.DB) (*Inst, error) {
	raw, err := OpenStore(st)
	if err != nil {
		return nil, fmt.Errorf("open wallet db: %v", err)
	}
	dir := st.Dir
	i := &Inst{Dir: dir, Store: st, Raw: raw, DB: raw, Srv: &simnode.Server{N: n}, Cfg: Config(gap), Wrap: wrap}
	if wrap != nil {
		i.DB = wrap(raw)
	}
	defer func() {
		// a planned crash (db seam panic) while the manager opens: the process is gone, so is
		// its hold on the store
		if r := recover(); r != nil {
			raw.Close()
			panic(r)
		}
	}()
	w, err := masswallet.NewWalletManager(i.Srv, i.DB, i.Cfg, config.ChainParams, pubpass)
	if err != nil {
		raw.Close()
		return nil, fmt.Errorf("NewWalletManager: %v", err)
	}
	i.W = w
	return i, nil
}

// CloseRaw closes the underlying database without any wallet shutdown logic
// (used for instances whose goroutines were never started, and for crashes).
func (i *Inst) CloseRaw() { i.Raw.Close() }
