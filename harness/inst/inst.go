// Package inst builds wallet instances the way loader.go does, over a simnode.
package inst

import (
	"fmt"
	"os"
	"path/filepath"

	"massnet.org/mass-wallet/config"
	"massnet.org/mass-wallet/masswallet"
	mwdb "massnet.org/mass-wallet/masswallet/db"
	_ "massnet.org/mass-wallet/masswallet/db/ldb"
	"vh/simnode"
)

// PubPass is the public passphrase used by every instance unless a scenario changes it.
const PubPass = "publicpassVerif1"

// Inst is one wallet manager over one wallet database directory.
type Inst struct {
	Dir  string
	Raw  mwdb.DB // the real ldb.LevelDB
	DB   mwdb.DB // what the wallet sees (Raw or a seam around it)
	W    *masswallet.WalletManager
	Srv  *simnode.Server
	Cfg  *config.Config
	Wrap func(mwdb.DB) mwdb.DB
}

// Config returns a wallet configuration with the given gap limit.
func Config(gap uint32) *config.Config {
	cfg := &config.Config{Core: config.NewDefCoreConfig(), Wallet: config.NewDefWalletConfig()}
	cfg.Wallet.Settings.AddressGapLimit = gap
	return cfg
}

// Open creates (or reopens) the wallet database under dir and builds a WalletManager
// exactly as loader.openWallet/createWallet do. wrap may interpose a db seam.
func Open(dir string, n *simnode.Node, gap uint32, pubpass string, wrap func(mwdb.DB) mwdb.DB) (*Inst, error) {
	dbdir := filepath.Join(dir, "wallet.db")
	var raw mwdb.DB
	var err error
	if _, serr := os.Stat(dbdir); serr == nil {
		raw, err = mwdb.OpenDB("leveldb", dbdir)
	} else {
		os.MkdirAll(dir, 0o755)
		raw, err = mwdb.CreateDB("leveldb", dbdir)
	}
	if err != nil {
		return nil, fmt.Errorf("open wallet db: %v", err)
	}
	i := &Inst{Dir: dir, Raw: raw, DB: raw, Srv: &simnode.Server{N: n}, Cfg: Config(gap), Wrap: wrap}
	if wrap != nil {
		i.DB = wrap(raw)
	}
	w, err := masswallet.NewWalletManager(i.Srv, i.DB, i.Cfg, config.ChainParams, pubpass)
	if err != nil {
		raw.Close()
		return nil, fmt.Errorf("NewWalletManager: %v", err)
	}
	i.W = w
	return i, nil
}

// CloseRaw closes the underlying database without any wallet shutdown logic
// (used for instances whose goroutines were never started, and for crashes).
func (i *Inst) CloseRaw() { i.Raw.Close() }
