// Package env prepares the process-wide environment every worker needs before it
// touches wallet code: quiet logging, a FATAL-exit trap, cheap scrypt, scaled
// consensus constants and a deterministic crypto/rand stream.
package env

import (
	"crypto/rand"
	"crypto/sha256"
	"encoding/binary"
	"fmt"
	"io"
	"os"
	"runtime"
	"runtime/debug"
	"sync"

	"github.com/massnetorg/mass-core/consensus"
	"github.com/massnetorg/mass-core/logging"
	"github.com/sirupsen/logrus"
	"massnet.org/mass-wallet/masswallet/keystore"
	"massnet.org/mass-wallet/masswallet/keystore/snacl"
)

// Fatal is one trapped logging.CPrint(FATAL) → logrus.Exit event.
type Fatal struct {
	Stack string
}

var (
	mu      sync.Mutex
	fatals  []Fatal
	scratch string
	inited  bool
)

// Consensus holds the scaled consensus constants (DESIGN §2 fact 6).
type Consensus struct {
	CoinbaseMaturity  uint64
	MinFrozenPeriod   uint64
	WarmUpHeight      uint64
	BindingLockPeriod uint64
}

// Small is the default scaled set used by bounded histories.
var Small = Consensus{CoinbaseMaturity: 3, MinFrozenPeriod: 2, WarmUpHeight: 5, BindingLockPeriod: 3}

var prod Consensus

// Init must be called once per process. dir is a private scratch directory.
func Init(dir string) {
	if inited {
		return
	}
	inited = true
	scratch = dir
	os.MkdirAll(dir, 0o755)
	lvl := "fatal"
	if l := os.Getenv("VH_LOGLEVEL"); l != "" {
		lvl = l // debugging aid: the log goes to <scratch>/v.log
	}
	logging.Init(dir, "v.log", lvl, 0, true)
	logrus.RegisterExitHandler(func() {
		mu.Lock()
		fatals = append(fatals, Fatal{Stack: string(debug.Stack())})
		mu.Unlock()
		runtime.Goexit()
	})
	keystore.DefaultScryptOptions = keystore.ScryptOptions{N: 2, R: 1, P: 1}
	prod = Consensus{
		CoinbaseMaturity:  consensus.CoinbaseMaturity,
		MinFrozenPeriod:   consensus.MinFrozenPeriod,
		WarmUpHeight:      consensus.MASSIP0002WarmUpHeight,
		BindingLockPeriod: consensus.MASSIP0002BindingLockedPeriod,
	}
}

// Scratch returns the process scratch dir.
func Scratch() string { return scratch }

// SetConsensus installs a constant set; Prod() restores production values.
func SetConsensus(c Consensus) {
	consensus.CoinbaseMaturity = c.CoinbaseMaturity
	consensus.MinFrozenPeriod = c.MinFrozenPeriod
	consensus.MASSIP0002WarmUpHeight = c.WarmUpHeight
	consensus.MASSIP0002BindingLockedPeriod = c.BindingLockPeriod
}

// Prod returns the production constants captured at Init.
func Prod() Consensus { return prod }

// TakeFatals returns and clears trapped FATAL exits.
func TakeFatals() []Fatal {
	mu.Lock()
	defer mu.Unlock()
	f := fatals
	fatals = nil
	return f
}

// detRand is a deterministic byte stream: SHA-256 in counter mode over a label.
type detRand struct {
	mu    sync.Mutex
	label [32]byte
	ctr   uint64
	buf   []byte
}

func (d *detRand) Read(p []byte) (int, error) {
	d.mu.Lock()
	defer d.mu.Unlock()
	n := 0
	for n < len(p) {
		if len(d.buf) == 0 {
			var b [40]byte
			copy(b[:32], d.label[:])
			binary.BigEndian.PutUint64(b[32:], d.ctr)
			d.ctr++
			h := sha256.Sum256(b[:])
			d.buf = h[:]
		}
		c := copy(p[n:], d.buf)
		d.buf = d.buf[c:]
		n += c
	}
	return n, nil
}

var origRand io.Reader

// SeedRand replaces crypto/rand.Reader by a deterministic stream derived from label,
// so that wallets created with CreateWallet (and all ciphertext salts/nonces) are a
// function of the history being replayed.
func SeedRand(label string) {
	if origRand == nil {
		origRand = rand.Reader
	}
	r := &detRand{label: sha256.Sum256([]byte(label))}
	rand.Reader = r
	snacl.VerifSetPRNG(r)
}

// RestoreRand puts the system randomness source back.
func RestoreRand() {
	if origRand != nil {
		rand.Reader = origRand
		snacl.VerifSetPRNG(origRand)
	}
}

// Must panics with a harness error (never a property violation).
func Must(err error, what string) {
	if err != nil {
		panic(fmt.Sprintf("HARNESS-ERROR %s: %v", what, err))
	}
}
